"""sys.monitoring LINE coverage restricted to files of the tree under test (interpreted mode).

The callback returns DISABLE after the first hit of each line, so the cost is one event per line per
code object.  Used as *evidence of reach*: which anchored guard/branch lines the workload executed.
"""
import os
import sys

_hits = {}
_TOOL = 3


def start(path_prefix):
    mon = sys.monitoring
    try:
        mon.use_tool_id(_TOOL, "pvmon-linecov")
    except ValueError:
        return False
    prefix = os.path.abspath(path_prefix)

    def on_line(code, line):
        fn = code.co_filename
        if fn.startswith(prefix):
            _hits.setdefault(os.path.basename(fn), set()).add(line)
        return mon.DISABLE

    mon.register_callback(_TOOL, mon.events.LINE, on_line)
    mon.set_events(_TOOL, mon.events.LINE)
    return True


def stop():
    mon = sys.monitoring
    try:
        mon.set_events(_TOOL, 0)
        mon.free_tool_id(_TOOL)
    except Exception:
        pass


def report(filename, ranges, src_dir):
    """For each (lo, hi) range of `filename`: executable lines hit / missed (by line number)."""
    import dis

    hit = _hits.get(filename, set())
    path = os.path.join(src_dir, filename)
    with open(path) as f:
        code = compile(f.read(), path, "exec")
    lines = set()

    def walk(co):
        for _, _, ln in co.co_lines():
            if ln:
                lines.add(ln)
        for c in co.co_consts:
            if hasattr(c, "co_lines"):
                walk(c)

    walk(code)
    out = {}
    for lo, hi in ranges:
        execl = sorted(x for x in lines if lo <= x <= hi)
        got = [x for x in execl if x in hit]
        out[f"{filename}:{lo}-{hi}"] = {"executable": len(execl), "hit": len(got),
                                        "missed": [x for x in execl if x not in hit][:40]}
    return out
