"""Shared drivers and runtime monitors for the solver-level properties (C01-C09).

* ``History``: regenerates a complete update history (mineral, parameters, L(t,x), pathline,
  partition) from a small JSON descriptor.
* ``Monitors``: recording wrappers installed on ``pydrex.core.derivatives``,
  ``pydrex.utils.apply_gbs`` and ``pydrex.utils.extract_vars`` (the module attributes that
  ``Mineral.update_orientations`` resolves at call time), so the oracles see *every* right-hand
  side evaluation and solver step of a real LSODA integration.
"""
from __future__ import annotations

import hashlib
import warnings

import numpy as np

from . import gen, refmodels

DISLOCATION = (4, 6)


def sha(a):
    return hashlib.sha1(np.ascontiguousarray(a).tobytes()).hexdigest()[:16]


# =============================================================================================
# velocity-gradient fields from descriptors


def make_field(desc):
    """desc: {"kind", "seed", "mode": const|timedep|posdep, "k": rate scale, "T": time span}
    returns (Lfun(t, x), posfun(t)).  All fields are bounded and smooth."""
    rng = np.random.default_rng([int(desc["seed"]), 77])
    _, L0 = gen.velgrad(rng, desc["kind"], unit=True)
    k = float(desc.get("k", 1.0))
    mode = desc.get("mode", "const")
    T = float(desc.get("T", 1.0))
    L0 = L0 * k
    if mode == "const":
        return (lambda t, x: L0), (lambda t: np.zeros(3))
    _, L1 = gen.velgrad(rng, desc.get("kind2"), unit=True)   # second field (time/position dependence, second stage)
    L1 = L1 * k
    if mode == "timedep":
        a, b = 3.0 / T, 2.0 / T
        tref = float(desc.get("t0", 0.0))

        def Lfun(t, x):   # phase measured from the start of the history (large absolute times stay well conditioned)
            return L0 * np.cos(a * (t - tref)) + L1 * np.sin(b * (t - tref))

        return Lfun, (lambda t: np.zeros(3))
    if mode == "multirate":
        # two stages of equal strain: unit rate on [t0, tb), rate rho on [tb, t0+T]  (large dynamic range of rates)
        rho = float(desc.get("rho", 1e-3))
        tb = float(desc.get("t0", 0.0)) + T * rho / (1 + rho)

        def Lfun(t, x):
            return L0 if t < tb else rho * L1

        return Lfun, (lambda t: np.zeros(3))
    if mode == "posdep":
        w = 2.0 / T
        tref = float(desc.get("t0", 0.0))

        def pos(t):
            return np.array([np.cos(w * (t - tref)), np.sin(w * (t - tref)), 0.3 * w * (t - tref)])

        def Lfun(t, x):
            return L0 * (1 + 0.5 * x[0]) + L1 * (0.7 * x[1] + 0.1 * x[2])

        return Lfun, pos
    raise ValueError(mode)


def make_pulsed_field(desc, ts):
    """L(t) = L0 + bump(t) * L1 where the smooth bump is *exactly zero* at the start, the midpoint and the end of
    every update interval and non-zero in two windows in between: any shortcut that samples L at a few times of an
    interval ("the flow is steady") sees a constant field."""
    rng = np.random.default_rng([int(desc["seed"]), 77])
    _, L0 = gen.velgrad(rng, desc["kind"], unit=True)
    _, L1 = gen.velgrad(rng, desc.get("kind2"), unit=True)
    k = float(desc.get("k", 1.0))
    L0, L1 = L0 * k, L1 * k * 1.5
    ts = np.asarray(ts, float)
    lo = np.minimum(ts[:-1], ts[1:])
    hi = np.maximum(ts[:-1], ts[1:])
    order = np.argsort(lo)
    lo, hi = lo[order], hi[order]
    windows = [(0.1, 0.4), (0.6, 0.9)]
    breaks = sorted(float(a + w * (b - a)) for a, b in zip(lo, hi) for ww in windows for w in ww)

    def bump(t):
        j = int(np.clip(np.searchsorted(lo, t, side="right") - 1, 0, len(lo) - 1))
        s = (t - lo[j]) / (hi[j] - lo[j])
        for (u, v) in windows:
            if u < s < v:
                return float(np.sin(np.pi * (s - u) / (v - u)) ** 2)
        return 0.0

    def Lfun(t, x):
        b = bump(t)
        return L0 if b == 0.0 else L0 + b * L1

    return Lfun, (lambda t: np.zeros(3)), breaks


# =============================================================================================


class History:
    """A fully regenerable update history."""

    def __init__(self, pydrex, case):
        self.pydrex = pydrex
        self.case = case
        rng = np.random.default_rng([int(case["seed"]), 11])
        combos = gen.combos(pydrex)
        self.phase, self.fabric = combos[int(case["combo"])]
        self.regime = int(case.get("regime", 4))
        self.n = int(case["n"])
        _, self.A0 = gen.texture(rng, self.n, case["tex"])
        _, self.f0 = gen.volumes(rng, self.n, case["vol"])
        self.params = gen.params_dict(pydrex, self.phase, case.get("params"))
        if "phi" in case:  # two-phase assemblage with this mineral's fraction phi
            other = [p for p in (pydrex.core.MineralPhase.olivine, pydrex.core.MineralPhase.enstatite)
                     if p != self.phase][0]
            self.params["phase_assemblage"] = (self.phase, other)
            self.params["phase_fractions"] = (float(case["phi"]), 1.0 - float(case["phi"]))
        # argument forms: the documented parameter dictionary holds tuples; lists, arrays and numpy scalars are
        # equally valid "NumPy-compatible" values
        forms = int(case["seed"]) % 4
        if forms == 1:
            self.params["phase_assemblage"] = list(self.params["phase_assemblage"])
            self.params["phase_fractions"] = list(self.params["phase_fractions"])
        elif forms == 3 and float(self.params["gbm_mobility"]).is_integer():
            self.params["gbm_mobility"] = int(self.params["gbm_mobility"])   # int is the documented default type
        elif forms == 2:
            self.params["phase_fractions"] = np.array(self.params["phase_fractions"], dtype=float)
            for key in ("stress_exponent", "deformation_exponent", "nucleation_efficiency", "gbm_mobility", "gbs_threshold"):
                self.params[key] = np.float64(self.params[key])
        fd = dict(case["L"])
        k = float(fd.get("k", 1.0))
        self.strain = float(case["strain"])
        # time span such that the nominal strain (at unit-rate scaling) is `strain`
        self.breaks = []
        if fd.get("mode") == "multirate":
            rho = float(fd.get("rho", 1e-3))
            self.T = self.strain / (k * 2 * rho / (1 + rho))
        else:
            self.T = self.strain / k
        self.t0 = float(case.get("t0", 0.0)) / k
        fd["T"] = self.T
        fd["t0"] = self.t0
        if fd.get("mode") == "multirate":
            self.breaks = [self.t0 + self.T * rho / (1 + rho)]
        self.N = int(case["N"])
        self.ts = gen.partition(rng, self.t0, self.t0 + self.T, self.N, equal=case.get("equal", True))
        # "any partition of the time span": optionally one very short interval (adaptive refinement towards an event,
        # near-duplicate timestamps) -- partition point j is moved to just after point j-1
        r = case.get("refine")
        if r and self.N >= 2 and fd.get("mode") != "pulsed" and case.get("regime2") is None:
            j = 1 + int(case["seed"]) % (self.N - 1)
            self.ts[j] = self.ts[j - 1] + max(float(r) * self.T, 64 * float(np.spacing(abs(self.ts[j - 1]) + abs(self.T))))
        if fd.get("mode") == "pulsed":
            self.Lfun, self.posfun, self.breaks = make_pulsed_field(fd, self.ts)
        else:
            self.Lfun, self.posfun = make_field(fd)
        # reversed interval: the same span integrated from its end to its start (time_start > time_end)
        self.reversed = bool(case.get("reversed", False)) and fd.get("mode") not in ("multirate", "pulsed")
        if self.reversed:
            self.ts = self.ts[::-1].copy()
        # memory layout of the arrays handed to the Mineral (same values, different strides)
        self.layout = case.get("layout", "C")
        # regime delivery: static attribute of the mineral, or through the get_regime(t, x) callback
        # (optionally switching to a second regime half-way through the history)
        self.regime_via = case.get("regime_via", "static")
        self.regime2 = case.get("regime2")
        self.t_switch = self.t0 + 0.5 * self.T * (1 - 1e-9)
        F0k = case.get("F0", "I")
        if F0k == "I":
            self.F0 = np.eye(3)
        else:
            r2 = np.random.default_rng([int(case["seed"]), 13])
            if F0k == "random":
                F = np.eye(3) + 0.5 * r2.normal(size=(3, 3))
                if np.linalg.det(F) < 0:
                    F[0] *= -1
                self.F0 = F
            elif F0k == "sheared":
                F = np.eye(3)
                F[0, 1] = 5.0
                self.F0 = gen.haar(r2) @ F
            elif F0k == "nearsingular":
                self.F0 = np.diag([1.0, 1.0, 1e-3]) @ gen.haar(r2)
            else:
                raise ValueError(F0k)

    def get_regime_fn(self):
        if self.regime_via != "callback" and self.regime2 is None:
            return None
        R = self.pydrex.core.DeformationRegime
        r1, r2, tsw = R(self.regime), (None if self.regime2 is None else R(int(self.regime2))), self.t_switch

        def get_regime(t, x):
            if r2 is not None and t > tsw:
                return r2
            return r1

        return get_regime

    def regime_at_update(self, i):
        """Regime in force during update i (0-based) -- the switch lies just before a partition point
        only for even N with an equal partition; callers that need it use such histories."""
        if self.regime2 is not None and self.ts[i] >= self.t_switch:
            return int(self.regime2)
        return self.regime

    def mineral(self, A0=None, f0=None, regime=None, **kw):
        static = self.regime if regime is None else regime
        if regime is None and self.get_regime_fn() is not None:
            # the static attribute deliberately differs from what the callback will report (it may even be a null regime)
            others = [r for r in (4, 6, 0, 7) if r != self.regime]
            static = others[int(self.case["seed"]) % len(others)]
        m = self.pydrex.Mineral(
            phase=self.phase, fabric=self.fabric,
            regime=self.pydrex.core.DeformationRegime(static),
            n_grains=self.n,
            fractions_init=(self.f0 if f0 is None else f0).copy(),
            orientations_init=relayout((self.A0 if A0 is None else A0), self.layout), **kw,
        )
        return m

    def run(self, m, F0=None, Lfun=None, posfun=None, ts=None, params=None, on_update=None, solver_kw=None):
        """Drive mineral ``m`` through the history. Returns final F. Exceptions propagate."""
        F = relayout((self.F0 if F0 is None else F0), self.layout)
        Lfun = Lfun or self.Lfun
        posfun = posfun or self.posfun
        ts = self.ts if ts is None else ts
        params = params or self.params
        with warnings.catch_warnings():
            warnings.simplefilter("ignore")
            gr = self.get_regime_fn()
            if solver_kw is None:
                solver_kw = self.solver_kw(ts)
            for i, (a, b) in enumerate(zip(ts[:-1], ts[1:])):
                F = m.update_orientations(params, F, Lfun, (a, b, posfun), get_regime=gr, **(solver_kw or {}))
                if on_update:
                    on_update(i, a, b, F)
        return F

    def solver_kw(self, ts=None):
        """Keyword arguments forwarded to LSODA for this history (relative to the time axis actually driven)."""
        ts = self.ts if ts is None else ts
        sk = self.case.get("solver", "default")
        if sk == "tight":
            return {"rtol": 1e-8, "atol": 1e-9}
        if sk == "max_step":
            return {"max_step": abs(ts[-1] - ts[0]) / max(1, len(ts) - 1) / 3.0}
        return {}

    def strain_upto(self, i):
        """Accumulated strain after update i (0-based), along the driven history."""
        lo, hi = min(self.ts[0], self.ts[i + 1]), max(self.ts[0], self.ts[i + 1])
        pts = [self.ts[0]] + [b for b in self.breaks if lo < b < hi] + [self.ts[i + 1]]
        m = max(8, (32 * (i + 1) if i < 8 else 256) // (len(pts) - 1))
        return sum(refmodels.accumulated_strain(self.Lfun, self.posfun, a, np.nextafter(b, a) if b in self.breaks else b, m=m)
                   for a, b in zip(pts[:-1], pts[1:]))


def solver_gave_up(case, exc):
    """True when an update failed with PyDRex's IterationError (LSODA gave up) in a history that asked for
    non-default solver keyword arguments.  Very tight user tolerances on a right-hand side with rate
    discontinuities can legitimately exhaust LSODA; that is a property of the request, not a defect."""
    return type(exc).__name__ == "IterationError" and isinstance(case, dict) and case.get("solver", "default") != "default"


def relayout(a, layout):
    """Same values, different memory layout: C copy, Fortran-ordered copy, a non-contiguous view of a
    transposed stack (np.moveaxis), or a read-only C copy."""
    a = np.asarray(a, dtype=float)
    if layout == "F":
        return np.asfortranarray(a)
    if layout == "moveaxis" and a.ndim == 3:
        stack = np.ascontiguousarray(np.moveaxis(a, 0, -1))   # (3, 3, n) C-contiguous
        return np.moveaxis(stack, -1, 0)                      # (n, 3, 3) view, entries of different grains interleaved
    if layout == "moveaxis" and a.ndim == 2:
        return np.ascontiguousarray(a.T).T
    if layout == "readonly":
        b = a.copy()
        b.setflags(write=False)
        return b
    return a.copy()


def random_history_case(rng, **fixed):
    """Descriptor of a random hostile history. ``fixed`` pins any field."""
    mode = rng.choice(["const", "const", "timedep", "posdep", "multirate", "pulsed"], p=[0.3, 0.15, 0.2, 0.15, 0.12, 0.08])
    case = {
        "seed": int(rng.integers(1 << 31)),
        "combo": int(rng.integers(6)),
        "regime": int(rng.choice([4, 4, 4, 6])),
        "n": int(rng.choice([2, 3, 10, 50, 200], p=[0.1, 0.15, 0.3, 0.35, 0.1])),
        "tex": str(rng.choice(gen.TEXTURE_KINDS)),
        "vol": str(rng.choice(gen.VOLUME_KINDS)),
        "L": {"kind": str(rng.choice(gen.L_KINDS)), "seed": int(rng.integers(1 << 31)), "mode": str(mode),
              "k": float(rng.choice([1.0, 1.0, 0.5, 3.0, 1e-3, 1e2, 1e-9]))},
        "strain": float(rng.choice([0.2, 1.0, 2.0])),
        "N": int(rng.choice([1, 3, 10, 40], p=[0.3, 0.4, 0.25, 0.05])),
        "equal": bool(rng.random() < 0.5),
        "params": gen.drex_params(rng),
        # pathlines rarely start at t = 0: offsets up to 1e6 spans (and seconds-scale model times)
        "t0": float(rng.choice([0.0, 0.0, 0.5, -1.3, 1e4, 1e6])),
        "regime_via": str(rng.choice(["static", "callback"], p=[0.6, 0.4])),
        "layout": str(rng.choice(["C", "F", "moveaxis", "readonly"], p=[0.7, 0.1, 0.1, 0.1])),
        "reversed": bool(rng.random() < 0.08),
        # keyword arguments forwarded to the ODE solver (tighter tolerances / a step cap are legitimate user choices)
        "solver": str(rng.choice(["default", "default", "default", "default", "tight", "max_step"])),
    }
    if mode == "multirate":
        case["L"]["rho"] = float(rng.choice([1e-2, 1e-3, 1e-4]))
    if rng.random() < 0.12:
        case["refine"] = float(rng.choice([1e-6, 1e-8, 1e-10]))   # one very short update interval (fraction of the span)
    if rng.random() < 0.25:
        # the mineral is one phase of a two-phase assemblage (its own volume fraction phi)
        case["phi"] = float(rng.choice([0.7, 0.3, rng.uniform(0.05, 0.95)]))
    case.update(fixed)
    return case


# =============================================================================================
# monitors


class Monitors:
    """Recording wrappers on the module attributes the integrator calls through."""

    def __init__(self, pydrex, ctx):
        self.pydrex = pydrex
        self.ctx = ctx
        self.core = pydrex.core
        self.utils = pydrex.utils
        self._orig = {}
        self.case = None
        self.gbs_calls = []
        self.record_gbs = False
        self.deriv_hook = None     # callable(kwargs, result) -> None
        self.extract_hook = None
        self.n_rhs = 0
        self.skip_c03 = False

    # ---- install / remove -------------------------------------------------------------
    def install(self):
        core, utils = self.core, self.utils
        self._orig["derivatives"] = core.derivatives
        self._orig["apply_gbs"] = utils.apply_gbs
        self._orig["extract_vars"] = utils.extract_vars
        orig_d, orig_g, orig_e = core.derivatives, utils.apply_gbs, utils.extract_vars
        mon = self

        def derivatives(*args, **kwargs):
            res = orig_d(*args, **kwargs)
            mon.n_rhs += 1
            try:
                mon._on_derivatives(args, kwargs, res)
            except Exception as e:  # monitor bug: never disturb the solver; report as inconclusive
                mon.ctx.inconclusive.append(f"derivatives monitor error: {type(e).__name__}: {e}")
            return res

        def apply_gbs(orientations, fractions, gbs_threshold, orientations_prev, n_grains):
            if mon.record_gbs:
                a_in, f_in, p_in = orientations.copy(), fractions.copy(), orientations_prev.copy()
            o, f = orig_g(orientations, fractions, gbs_threshold, orientations_prev, n_grains)
            if mon.record_gbs:
                mon.gbs_calls.append(dict(a_in=a_in, f_in=f_in, prev=p_in, chi=gbs_threshold, n=n_grains,
                                          a_out=np.array(o, copy=True), f_out=np.array(f, copy=True),
                                          prev_after=orientations_prev.copy()))
            return o, f

        def extract_vars(y, n_grains):
            res = orig_e(y, n_grains)
            if mon.extract_hook:
                try:
                    mon.extract_hook(y, n_grains, res)
                except Exception as e:
                    mon.ctx.inconclusive.append(f"extract_vars monitor error: {type(e).__name__}: {e}")
            return res

        core.derivatives = derivatives
        utils.apply_gbs = apply_gbs
        utils.extract_vars = extract_vars
        return self

    def remove(self):
        self.core.derivatives = self._orig["derivatives"]
        self.utils.apply_gbs = self._orig["apply_gbs"]
        self.utils.extract_vars = self._orig["extract_vars"]

    def __enter__(self):
        return self.install()

    def __exit__(self, *a):
        self.remove()

    # ---- C03 oracle on every RHS evaluation ------------------------------------------
    def _on_derivatives(self, args, kwargs, res):
        if self.deriv_hook:
            self.deriv_hook(args, kwargs, res)
        if self.skip_c03:
            return
        names = ("regime", "phase", "fabric", "n_grains", "orientations", "fractions", "strain_rate",
                 "velocity_gradient", "deformation_gradient_spin", "stress_exponent", "deformation_exponent",
                 "nucleation_efficiency", "gbm_mobility", "volume_fraction")
        kw = dict(zip(names, args))
        kw.update(kwargs)
        if int(kw["regime"]) not in DISLOCATION:
            return
        dA, df = res
        rate_manifold_oracle(self.ctx, kw["orientations"], kw["fractions"], dA, df,
                             float(kw["gbm_mobility"]) * float(kw["volume_fraction"]), self.case, where="in-solver",
                             Lnorm=float(np.abs(np.asarray(kw["velocity_gradient"])).sum()))


def rate_manifold_oracle(ctx, A, f, dA, df, mphi, case, where="direct", Lnorm=1.0):
    """C03 sub-oracles that need nothing but one call's inputs and outputs.

    Skewness is decided without inverting A: dA = A.W with W skew  <=>  dA.A^T + A.dA^T = A.(W + W^T).A^T = 0.
    (Inside the solver LSODA also evaluates the right-hand side at trial states it later rejects, where the
    merely clipped A can be arbitrarily ill-conditioned; solving for W there amplifies rounding by cond(A).)
    """
    dA = np.asarray(dA)
    df = np.asarray(df)
    A = np.asarray(A)
    fin = bool(np.isfinite(dA).all() and np.isfinite(df).all())
    ctx.check(f"rates_finite[{where}]", fin, case, key="rates_finite")
    if not fin:
        return
    At = np.swapaxes(A, -1, -2)
    S = dA @ At
    sk = np.abs(S + np.swapaxes(S, -1, -2)).max(axis=(1, 2)) if len(A) else np.zeros(0)
    scale = (1 + np.abs(dA).max(axis=(1, 2))) * (1 + np.abs(A).max(axis=(1, 2)) ** 2) if len(A) else np.ones(0)
    worst = float((sk / scale).max()) if len(sk) else 0.0
    ctx.extreme(f"skew_defect[{where}]", worst)
    ctx.check(f"spin_skew[{where}]", worst <= 1e-9, case, key="spin_skew", worst=worst)
    s = float(np.sum(f))
    if abs(s - 1) <= 1e-12:
        n = len(df)
        # rounding: the computed mean energy carries an error up to ~n*eps*Ebar (sequential sum in the kernel),
        # which enters sum(df) multiplied by phi*M; the grain terms add eps*sum|df_i|.  Energies are bounded by
        # a few times max(1, |L|) for the documented exponent ranges.
        tol = 1e-12 + 1e-11 * float(np.abs(df).sum()) + n * abs(mphi) * max(1.0, float(Lnorm)) * 1e-13
        tot = abs(float(df.sum()))
        ctx.extreme(f"sum_df/tol[{where}]", tot / tol)
        ctx.check(f"volume_rates_sum_zero[{where}]", tot <= tol, case, key="volume_rates_sum_zero",
                  total=tot, tol=tol)
    z = (np.asarray(f) == 0)
    if z.any():
        ctx.check(f"zero_volume_zero_rate[{where}]", bool(np.all(df[z] == 0)), case,
                  key="zero_volume_zero_rate")


# =============================================================================================
# paired executions


def hostile_rotation(rng):
    r = rng.random()
    from scipy.spatial.transform import Rotation

    if r < 0.5:
        return "haar", gen.haar(rng)
    if r < 0.65:
        return "signed_perm", gen.SIGNED_PERMS[int(rng.integers(24))].copy()
    if r < 0.8:
        ax = rng.normal(size=3)
        ax /= np.linalg.norm(ax)
        return "pi_rotation", Rotation.from_rotvec(np.pi * ax).as_matrix()
    if r < 0.9:
        return "tiny", Rotation.from_rotvec(rng.normal(size=3) * 1e-8).as_matrix()
    return "identity", np.eye(3)


class PairRun:
    """Drive two minerals through related histories under the apply_gbs recorder and compare
    every stored snapshot.  ``mapA(A1_k) -> expected A2_k``; volumes must agree; F via ``mapF``."""

    def __init__(self, ctx, pydrex, mon, case, H, label):
        self.ctx, self.pydrex, self.mon, self.case, self.H, self.label = ctx, pydrex, mon, case, H, label

    def _run(self, m, **kw):
        mon = self.mon
        last = []
        mon.record_gbs = True
        mon.gbs_calls = []

        def on_update(i, a, b, F):
            c = mon.gbs_calls[-1] if mon.gbs_calls else None
            last.append(None if c is None else (c["f_in"] < c["chi"] / c["n"], c["f_in"], c["chi"] / c["n"]))
            mon.gbs_calls = []

        try:
            F = self.H.run(m, on_update=on_update, **kw)
        finally:
            mon.record_gbs = False
            mon.gbs_calls = []
        return F, last

    TIGHT = {"rtol": 1e-10, "atol": 1e-12}

    def _explained_by_step_control(self, factory, kw1, kw2, mapF, tol):
        """Defect model of known finding K10 for a pair whose deformation gradients disagree under a time- or
        position-dependent velocity gradient: the identical pair re-run with a capped solver step (1/25 of the shortest
        update interval of each run) agrees, i.e. the disagreement is LSODA's adaptive step control stepping over a
        variation of L (each run's F is then off by its own few percent), not a broken relation."""
        if factory is None or self.case.get("L", {}).get("mode", "const") == "const":
            return None
        self.ctx.count(f"{self.label}:K10_defect_model_evaluations")
        try:
            n1, n2 = factory()
            outs = []
            for m, kw in ((n1, kw1), (n2, kw2)):
                ts = np.asarray(kw.get("ts", self.H.ts), float)
                cap = float(np.abs(np.diff(ts)).min()) / 25 if len(ts) > 1 else None
                F, _ = self._run(m, **dict(kw, solver_kw={"max_step": cap}))
                outs.append(F)
            eF = float(np.abs(outs[1] - mapF(outs[0])).max() / max(1.0, np.abs(outs[0]).max()))
            return bool(eF <= tol)
        except Exception:
            return False

    def compare(self, m1, m2, kw1, kw2, mapA, mapF, tol_of, exact=False, fresh=None, _tight=False, _factory=None):
        """``fresh`` () -> (m1, m2): factory of identically initialised minerals.  When given, a pair that
        disagrees under the default solver tolerances is re-run once with tight LSODA tolerances: if it then
        agrees, the disagreement was solver noise amplified by the (unstable) grain-growth dynamics -- an
        ill-conditioned case, counted, not a violation; a genuine break of the relation persists."""
        ctx, case, lab = self.ctx, self.case, self.label
        _factory = _factory or fresh
        kw1_user, kw2_user = kw1, kw2
        if _tight:
            kw1 = dict(kw1, solver_kw=self.TIGHT)
            kw2 = dict(kw2, solver_kw=self.TIGHT)
        try:
            F1, g1 = self._run(m1, **kw1)
            F2, g2 = self._run(m2, **kw2)
        except Exception as e:
            if solver_gave_up(case, e) or (_tight and type(e).__name__ == "IterationError"):
                ctx.count(f"{lab}:solver_gave_up_under_user_tolerances")
                return False
            ctx.check(f"{lab}:pair_runs_complete", False, case, key=f"raises/{type(e).__name__}",
                      exc=f"{type(e).__name__}: {str(e)[:200]}")
            return False
        nup = len(m1.orientations) - 1
        if len(m2.orientations) != len(m1.orientations):
            ctx.check(f"{lab}:same_snapshot_count", False, case)
            return False
        diverged = False
        for k in range(1, nup + 1):
            a, b = g1[k - 1], g2[k - 1]
            if a is not None and b is not None:
                flips = a[0] != b[0]
                if flips.any():
                    thr = a[2]
                    band = 0.01 * thr + 3e-4
                    inband = (np.abs(a[1][flips] - thr) <= band) & (np.abs(b[1][flips] - thr) <= band)
                    if not inband.all() and fresh is not None and not _tight:
                        ctx.count(f"{lab}:rechecked_with_tight_solver_tolerances")
                        n1, n2 = fresh()
                        return self.compare(n1, n2, kw1, kw2, mapA, mapF, tol_of, exact=exact, fresh=None, _tight=True, _factory=_factory)
                    ctx.check(f"{lab}:gbs_mask_agrees_outside_tolerance_band", bool(inband.all()), case,
                              key="gbs_mask_mismatch", update=k, n_flips=int(flips.sum()),
                              worst=float(np.abs(a[1][flips] - thr).max()), thr=float(thr))
                    ctx.count(f"{lab}:legit_threshold_flip_histories")
                    diverged = True
                    break
            tol = tol_of(k)
            expA = mapA(m1.orientations[k])
            eA = float(np.abs(m2.orientations[k] - expA).max())
            ef = float(np.abs(m2.fractions[k] - m1.fractions[k]).max())
            ctx.extreme(f"{lab}:dA/tol", eA / tol)
            ctx.extreme(f"{lab}:df/tol", ef / tol)
            ctx.extreme(f"{lab}:dA", eA)
            ctx.extreme(f"{lab}:df", ef)
            ok = eA <= tol and ef <= tol
            if not ok and fresh is not None and not _tight:
                ctx.count(f"{lab}:rechecked_with_tight_solver_tolerances")
                n1, n2 = fresh()
                return self.compare(n1, n2, kw1, kw2, mapA, mapF, tol_of, exact=exact, fresh=None, _tight=True, _factory=_factory)
            if _tight and ok and k == nup:
                ctx.count(f"{lab}:illconditioned_solver_noise_amplified")
            if exact:
                ctx.count(f"{lab}:bit_identical" if (eA == 0 and ef == 0) else f"{lab}:not_bit_identical")
            ctx.check(f"{lab}:textures_related", ok, case, update=k, err_A=eA, err_f=ef, tol=tol)
            if not ok:
                break
        if not diverged:
            tol = tol_of(nup)
            eF = float(np.abs(F2 - mapF(F1)).max() / max(1.0, np.abs(F1).max()))
            okF = eF <= tol
            if okF:
                ctx.extreme(f"{lab}:dF/tol", eF / tol)
            keyF, explF = f"{lab}:deformation_gradient_related", None
            if not okF:
                explF = self._explained_by_step_control(_factory, kw1_user, kw2_user, mapF, tol)
                if explF is not None:
                    keyF = "F_equals_reference/adaptive_steps_skip_variation_of_L"
            ctx.check(f"{lab}:deformation_gradient_related", okF, case, key=keyF, explained=explF, err=eF, tol=tol)
        return True
