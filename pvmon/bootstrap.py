"""Environment bootstrap: third-party deps, the tree under test, logging/excepthook traps.

Everything that decides *which* PyDRex is imported lives here, so that every check is
guaranteed to run the current working tree of ``$VERIF_REPO`` (default ``/repo``).
"""
from __future__ import annotations

import os
import subprocess
import sys

VERIF_DIR = os.path.dirname(os.path.dirname(os.path.abspath(__file__)))
DEPS_DIR = os.path.join(VERIF_DIR, ".deps")
WHEELS = "/opt/veriftools/wheels"
PYTHON = "/venv/bin/python"
REQUIRED = ("icontract", "jsonschema")


def repo_dir() -> str:
    return os.path.abspath(os.environ.get("VERIF_REPO", "/repo"))


def ensure_deps(quiet: bool = True) -> None:
    """Install icontract/jsonschema next to the repo's interpreter (offline wheelhouse).

    ``.deps`` is git-ignored, so a fresh restore has to rebuild it; idempotent.
    """
    missing = [p for p in REQUIRED if not os.path.isdir(os.path.join(DEPS_DIR, p))]
    if missing:
        os.makedirs(DEPS_DIR, exist_ok=True)
        cmd = [
            PYTHON, "-m", "pip", "install", "--no-index", "--find-links", WHEELS,
            "--target", DEPS_DIR, "--upgrade", "--quiet", "--disable-pip-version-check",
            "icontract", "deal", "jsonschema",
        ]
        env = dict(os.environ, PIP_NO_INDEX="1")
        out = subprocess.run(cmd, env=env, capture_output=True, text=True)
        if out.returncode != 0:
            # deal is optional; retry with the two hard requirements only.
            cmd = cmd[:-3] + ["icontract", "jsonschema"]
            out = subprocess.run(cmd, env=env, capture_output=True, text=True)
            if out.returncode != 0:
                sys.stderr.write(out.stdout + out.stderr)
                raise RuntimeError("could not install verification deps offline")
    if DEPS_DIR not in sys.path:
        sys.path.append(DEPS_DIR)  # after site-packages: never shadow the repo's deps


def setup_paths() -> None:
    src = os.path.join(repo_dir(), "src")
    if src in sys.path:
        sys.path.remove(src)
    sys.path.insert(0, src)
    if VERIF_DIR not in sys.path:
        sys.path.insert(1, VERIF_DIR)
    if os.path.isdir(DEPS_DIR) and DEPS_DIR not in sys.path:
        sys.path.append(DEPS_DIR)


class TreeIdentityError(RuntimeError):
    pass


def import_pydrex():
    """Import pydrex from the tree under test, quieten its logger, undo its excepthook."""
    setup_paths()
    import logging
    import warnings

    warnings.filterwarnings("ignore", category=DeprecationWarning)
    import pydrex  # noqa

    src = os.path.join(repo_dir(), "src") + os.sep
    if not os.path.abspath(pydrex.__file__).startswith(src):
        raise TreeIdentityError(
            f"imported pydrex from {pydrex.__file__}, expected under {src}"
        )
    from pydrex import logger as _plog

    _plog.CONSOLE_LOGGER.setLevel(logging.CRITICAL)
    # pydrex.logger replaces sys.excepthook by one that logs through its own logger; with
    # the console handler quietened an uncaught exception would print nothing.
    sys.excepthook = sys.__excepthook__
    return pydrex


def tree_id() -> dict:
    """Identify the tree under test (commit + dirty flag + digest of src/pydrex/*.py)."""
    import hashlib

    rd = repo_dir()
    h = hashlib.sha1()
    pdir = os.path.join(rd, "src", "pydrex")
    for name in sorted(os.listdir(pdir)):
        if name.endswith(".py"):
            with open(os.path.join(pdir, name), "rb") as f:
                h.update(name.encode())
                h.update(f.read())
    commit = "unknown"
    dirty = None
    try:
        commit = subprocess.run(
            ["git", "-C", rd, "rev-parse", "--short", "HEAD"],
            capture_output=True, text=True, timeout=20,
        ).stdout.strip() or "unknown"
        dirty = bool(
            subprocess.run(
                ["git", "-C", rd, "status", "--porcelain", "--untracked-files=no"],
                capture_output=True, text=True, timeout=20,
            ).stdout.strip()
        )
    except Exception:
        pass
    return {"repo": rd, "commit": commit, "dirty": dirty, "src_sha1": h.hexdigest()}
