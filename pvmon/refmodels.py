"""Independent reference models (executable specifications) used as oracles.

``drex_rates`` is a vectorised implementation of the published D-Rex rate equations written from
Kaminski & Ribe (2001), Kaminski, Ribe & Browaeys (2004) and Fraters & Billen (2021); it shares no
code with pydrex.core.
"""
from __future__ import annotations

import numpy as np

EPS = np.zeros((3, 3, 3))
EPS[0, 1, 2] = EPS[1, 2, 0] = EPS[2, 0, 1] = 1
EPS[0, 2, 1] = EPS[2, 1, 0] = EPS[1, 0, 2] = -1

# slip systems (plane normal axis, slip direction axis) in the documented order
# (010)[100], (001)[100], (010)[001], (100)[001]
SYSTEMS = [(1, 0), (2, 0), (1, 2), (0, 2)]
INF = np.inf
# documented CRSS table: key = (phase ordinal, fabric ordinal)
CRSS = {
    (0, 0): [1, 2, 3, INF],   # olivine A
    (0, 1): [3, 2, 1, INF],   # olivine B
    (0, 2): [3, 2, INF, 1],   # olivine C
    (0, 3): [1, 1, 3, INF],   # olivine D
    (0, 4): [3, 1, 2, INF],   # olivine E
    (1, 5): [INF, INF, INF, 1],  # enstatite AB
}


def drex_rates(phase, fabric, A, f, L, p, n, lam, M, phi, damping=1.0):
    """Reference D-Rex rates. Returns (dA[n,3,3], df[n], info dict).

    info carries per-grain invariants, activities, energies and conditioning flags:
      tie      -- two slip-system activities closer than 1e-9 * max activity (model ambiguous)
      unresolved -- max |I_s / tau_s| < 1e-9 (no slip can be resolved; covered by C03)
    """
    A = np.asarray(A, float)
    N = len(A)
    L = np.asarray(L, float)
    D = (L + L.T) / 2
    tau = np.array(CRSS[(int(phase), int(fabric))], float)
    ldir = np.stack([A[:, d, :] for (_, d) in SYSTEMS], 1)  # N,4,3 slip directions
    nrm = np.stack([A[:, pl, :] for (pl, _) in SYSTEMS], 1)  # N,4,3 plane normals
    I = np.einsum("gsi,ij,gsj->gs", ldir, D, nrm)
    act = np.abs(I / tau)
    rows = np.arange(N)
    if int(phase) == 0:
        order = np.argsort(act, axis=1, kind="stable")
        imax = order[:, 3]
        Imax = I[rows, imax]
        tmax = tau[imax]
        with np.errstate(all="ignore"):
            ratio = (I / tau) * (tmax / Imax)[:, None]
            beta = ratio * np.abs(ratio) ** (n - 1)
        beta[rows, order[:, 0]] = 0.0
        beta[rows, imax] = 1.0
        active = np.ones((N, 4), bool)
        active[rows, order[:, 0]] = False
        sact = np.sort(act, axis=1)
        amax = sact[:, 3]
        # The only ordering decision that changes the published rates is which system is
        # switched off (the least active one); swapping the two most active systems rescales
        # beta and gamma reciprocally and leaves G*gamma and the energies unchanged.  A tie is
        # therefore ambiguous only between the two *least* active systems with non-zero activity.
        tie = ((sact[:, 1] - sact[:, 0]) < 1e-9 * np.maximum(amax, 1e-300)) & (sact[:, 1] > 1e-9 * amax)
        unresolved = amax < 1e-9
        beta[unresolved] = 0.0
    else:
        beta = np.zeros((N, 4))
        beta[:, 3] = (np.abs(I[:, 3]) > 1e-15) * 1.0
        active = np.zeros((N, 4), bool)
        active[:, 3] = True
        tie = np.zeros(N, bool)
        unresolved = act[:, 3] < 1e-9
        amax = act[:, 3]
    G = 2 * np.einsum("gs,gsi,gsj->gij", beta, ldir, nrm)

    def W(X):
        return X - np.swapaxes(X, -1, -2)

    num = 2 * np.einsum("gij,ij->g", G, L) - 0.5 * np.einsum("gij,ij->g", W(G), W(L))
    den = 2 * np.einsum("gij,gij->g", G, G) - 0.5 * np.einsum("gij,gij->g", W(G), W(G))
    with np.errstate(all="ignore"):
        gam = np.where(np.abs(den) < 1e-15, 0.0, num / den)
    X = L[None] - G * gam[:, None, None]
    w = 0.5 * np.einsum("jrs,gsr->gj", EPS, X)
    dA = np.einsum("qrs,gps,gr->gpq", EPS, A, w)
    with np.errstate(all="ignore"):
        rho = (1 / tau) ** (n - p) * np.abs(beta * gam[:, None]) ** (p / n)
    rho = np.where((beta == 0) | ~active, 0.0, rho)
    rho = np.where(np.isfinite(rho), rho, 0.0)
    e = rho * np.exp(-lam * rho**2)
    E = e.sum(1)
    Em = float((f * E).sum())
    df = phi * M * f * (Em - E)
    info = dict(I=I, act=act, beta=beta, gam=gam, E=E, Em=Em, w=w, tie=tie, unresolved=unresolved,
                amax=amax, den=den)
    return damping * dA, damping * df, info


# ---------------------------------------------------------------------------------------------


def orth_err(A):
    A = np.asarray(A)
    return float(np.abs(A @ np.swapaxes(A, -1, -2) - np.eye(3)).max()) if A.size else 0.0


def texture_faults(A, f, n, bound):
    """List of (sub-oracle name, observed) for every way (A, f) fails to be a valid texture."""
    out = []
    A = np.asarray(A)
    f = np.asarray(f)
    if A.shape != (n, 3, 3):
        out.append(("shape_orientations", list(A.shape)))
        return out
    if f.shape != (n,):
        out.append(("shape_fractions", list(f.shape)))
        return out
    if not np.isfinite(A).all():
        out.append(("finite_orientations", int((~np.isfinite(A)).sum())))
    if not np.isfinite(f).all():
        out.append(("finite_fractions", int((~np.isfinite(f)).sum())))
    if out:
        return out
    if f.min() < 0:
        out.append(("fractions_nonneg", float(f.min())))
    if abs(f.sum() - 1) > 1e-9:
        out.append(("fractions_sum", float(f.sum())))
    if np.abs(A).max() > 1:
        out.append(("entries_in_range", float(np.abs(A).max())))
    e = orth_err(A)
    if e > bound:
        out.append(("orthonormal", e))
    d = np.linalg.det(A)
    if d.min() <= 0:
        out.append(("right_handed", float(d.min())))
    return out


def ref_deformation_gradient(F0, Lfun, posfun, t0, t1, breaks=()):
    """High-accuracy reference solution of dF/dt = L(t, x(t)) F (piecewise across `breaks`,
    the discontinuities of L in time)."""
    from scipy.integrate import solve_ivp

    pts = [t0] + sorted(b for b in breaks if min(t0, t1) < b < max(t0, t1)) + [t1]
    y = np.asarray(F0, float).ravel()
    for a, b in zip(pts[:-1], pts[1:]):
        end = np.nextafter(b, a) if b in breaks else b

        # integrate in shifted time tau = t - a: absolute times may be huge (t ~ 1e9 with spans ~ 1),
        # where a tight relative tolerance would ask for steps below the spacing of floats around t
        def rhs(tau, y, a=a):
            t = a + tau
            return (np.asarray(Lfun(t, posfun(t)), float) @ y.reshape(3, 3)).ravel()

        sol = solve_ivp(rhs, (0.0, end - a), y, method="DOP853", rtol=1e-11, atol=1e-13)
        if not sol.success:
            raise RuntimeError("reference F integration failed: " + sol.message)
        y = sol.y[:, -1]
    return y.reshape(3, 3)


def accumulated_strain(Lfun, posfun, t0, t1, m=64):
    """∫|dt| max|eig D(t)| by Simpson-ish trapezoid on m sub-intervals."""
    ts = np.linspace(t0, t1, m + 1)
    r = np.array([np.abs(np.linalg.eigvalsh((lambda L: (L + L.T) / 2)(np.asarray(Lfun(t, posfun(t)), float)))).max()
                  for t in ts])
    return float(np.trapezoid(r, ts)) * (1 if t1 >= t0 else -1)
