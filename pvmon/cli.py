"""Command line: ./vcheck <ID> [--tier quick|thorough] [--replay file]"""
import argparse
import os
import sys

from . import harness


def main(argv=None):
    ap = argparse.ArgumentParser(prog="vcheck")
    ap.add_argument("prop")
    ap.add_argument("--tier", default=os.environ.get("VERIF_TIER", "quick"), choices=["quick", "thorough"])
    ap.add_argument("--seed", type=int, default=int(os.environ.get("VERIF_SEED", "0") or 0))
    ap.add_argument("--replay", default=None)
    a = ap.parse_args(argv)
    prop = a.prop.upper()
    if a.replay:
        a.replay = os.path.abspath(a.replay)   # shard subprocesses run in their own scratch directories
    return harness.drive(prop, a.tier, a.seed, replay=a.replay)


if __name__ == "__main__":
    sys.exit(main())
