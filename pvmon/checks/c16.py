"""C16 -- SCSV save/read round trip is lossless; invalid schemas and data are refused.

Executable model of the format: the expected read-back value of each cell is the cell itself, or the
typed fill when the cell equals the fill (NaN == NaN).  Grammar-based generators produce schemas and
columns inside the representable domain stated by the property; single-fault injectors corrupt a
valid (schema, data) pair in one place and the result must be refused with SCSVError.  The terse
schema parser is checked against a 20-line model of its documented grammar.
"""
from __future__ import annotations

import cmath
import keyword
import math
import os
import string

import numpy as np

from .. import bootstrap

ID = "C16"
RULE = ("case = one generated (schema, columns) pair saved and read back, one fixed hostile catalogue entry, one single-fault "
        "corruption, or one terse-schema string; distinct = descriptor digest (+ sha1 of the file bytes for round trips); "
        "non-trivial = >= 1 row and at least one cell that is not the fill")
ASSUMPTIONS = [
    "representable domain: single-character delimiter from ASCII punctuation (not the double quote), space or tab, "
    "missing marker any printable string without the delimiter and without surrounding whitespace (incl. empty), names = unique "
    "non-keyword identifiers without leading underscore, strings printable with s == s.strip(), no cell of any type whose text "
    "equals the missing marker, complex NaN only as nan+0j under a NaN fill",
    "multi-character delimiters are outside the domain (the suite pins TypeError from the csv module)",
    "floats compared bit-for-bit incl. the sign of zero unless the cell equals the fill; complex compared component-wise (NaN-aware)",
]
TOLERANCES = {"values": "exact"}
REQUIRED_MONITORS = ["roundtrip_names", "roundtrip_values", "fault_refused_with_SCSVError", "terse_schema_parsed"]

PUNCT = [c for c in string.punctuation if c != '"']
DELIMS = PUNCT + [" ", "\t", " ", "\t"]
TYPES = ["string", "integer", "float", "boolean", "complex"]
PYT = {"string": str, "integer": int, "float": float, "boolean": bool, "complex": complex}
ALPH = string.ascii_letters + string.digits + " _-+.,;:!?#'\"()[]{}<>/\\|@$%^&*=~`" + "éßλ✓—"


def plan(tier):
    if tier == "quick":
        return [{"mode": "jit", "timeout": 600}] * 4
    return [{"mode": "jit", "timeout": 3000}] * 16


# ---------------------------------------------------------------------------------------------
# generators (everything regenerated from the integer seed in the descriptor)


def rstr(rng, maxlen=8, alphabet=ALPH, allow_empty=True):
    n = int(rng.integers(0 if allow_empty else 1, maxlen + 1))
    s = "".join(alphabet[int(i)] for i in rng.integers(len(alphabet), size=n))
    return s.strip()


def rname(rng, used):
    first = string.ascii_letters + "éλ"
    rest = string.ascii_letters + string.digits + "_"
    while True:
        s = first[int(rng.integers(len(first)))] + "".join(rest[int(i)] for i in rng.integers(len(rest), size=int(rng.integers(0, 7))))
        if rng.random() < 0.1:
            s = str(rng.choice(["yes", "no", "null", "true", "on", "y", "n", "None", "nan", "x1", "e5", "inf", "t"]))
        if s.isidentifier() and not keyword.iskeyword(s) and not s.startswith("_") and s not in used:
            used.add(s)
            return s


def rfloat(rng):
    r = rng.random()
    if r < 0.5:
        return float(rng.normal() * 10.0 ** rng.integers(-5, 6))
    if r < 0.6:
        return float(rng.choice([0.0, -0.0, 1.0, -1.0, 1.5, 100.0]))
    if r < 0.7:
        return float(rng.choice([math.inf, -math.inf, math.nan]))
    if r < 0.8:
        return float(rng.choice([5e-324, 1e-320, 2.2250738585072014e-308, 1.7976931348623157e308, -1.7976931348623157e308]))
    return float(np.frombuffer(rng.bytes(8), dtype=np.float64)[0])


def rint(rng):
    r = rng.random()
    if r < 0.6:
        return int(rng.integers(-1000, 1000))
    if r < 0.8:
        return int(rng.choice([0, 1, -1, 7, 999999]))
    return int(rng.integers(-10**9, 10**9)) * 10 ** int(rng.integers(0, 21))


def rcomplex(rng, nan_ok):
    def part():
        x = rfloat(rng)
        return 0.5 if math.isnan(x) else x
    if nan_ok and rng.random() < 0.15:
        return complex(math.nan, 0.0)
    return complex(part(), part())


def rfill(rng, typ):
    """(fill as given in the schema, typed fill)"""
    if typ == "string":
        s = str(rng.choice(["", "N/A", "null", "yes", "1.50", "#", "a: b", "'", "~", "- x", "[", "{a}", "%", "@v", "0x1F", "No", "NaN", "*a", "&a", "!t", "|", ">"])) \
            if rng.random() < 0.6 else rstr(rng)
        return s, s
    if typ == "integer":
        v = rint(rng)
        return (str(v), v) if rng.random() < 0.3 else (v, v)
    if typ == "float":
        r = rng.random()
        if r < 0.3:
            return "NaN", math.nan
        v = rfloat(rng)
        if r < 0.45:
            return repr(v), v
        return v, v
    if typ == "complex":
        r = rng.random()
        if r < 0.35:
            return "NaN", complex(math.nan)
        v = rcomplex(rng, False)
        return v, v
    if typ == "boolean":
        v = bool(rng.integers(2))
        return v, v
    raise ValueError(typ)


def cell_text(typ, v):
    return str(v)


def rcell(rng, typ, fillgiven, tfill, missing):
    for _ in range(50):
        r = rng.random()
        if r < 0.15 and typ != "boolean" and tfill is not None:
            v = tfill
        elif r < 0.27 and typ in ("float", "complex") and tfill is not None and not cmath.isnan(tfill) and not cmath.isinf(tfill):
            # close to, but different from, the fill: must survive as a value (exact comparison with the fill)
            base = tfill.real if typ == "complex" else tfill
            near = [np.nextafter(base, np.inf), np.nextafter(base, -np.inf), base + 1e-9, base * (1 + 1e-7) + 5e-324, base - 1e-12]
            x = float(near[int(rng.integers(len(near)))])
            v = complex(x, tfill.imag) if typ == "complex" else x
        elif r < 0.30 and typ == "integer" and tfill is not None:
            v = int(tfill) + int(rng.choice([-1, 1]))
        elif typ == "string":
            v = str(rng.choice(["", "---", "a,b", 'he said "hi"', "it's", "x\ty".replace("\t", " "), "# c", "- a", "[1]", "a  b", "é✓", "null", "~", "yes"])) \
                if r < 0.4 else rstr(rng, 10)
            v = v.strip()
        elif typ == "integer":
            v = rint(rng)
        elif typ == "float":
            v = rfloat(rng)
        elif typ == "complex":
            nan_fill = isinstance(tfill, complex) and cmath.isnan(tfill)
            v = rcomplex(rng, nan_fill)
        else:
            v = bool(rng.integers(2))
        if str(v).strip() != missing:
            return v
    return v


def gen_valid(seed, big=False):
    rng = np.random.default_rng([int(seed), 3])
    delim = DELIMS[int(rng.integers(len(DELIMS)))]
    while True:
        r = rng.random()
        missing = "" if r < 0.1 else str(rng.choice(["-", "N/A", "?", "NULL", "---", "'", "#", "nan", "0", "~", "None", "*"])) if r < 0.6 else rstr(rng, 4)
        if delim not in missing and missing == missing.strip() and missing.isprintable():
            break
    nf = int(rng.integers(1, 9))
    used = set()
    fields, tfills = [], []
    for _ in range(nf):
        typ = TYPES[int(rng.integers(5))]
        fld = {"name": rname(rng, used)}
        if typ != "string" or rng.random() < 0.8:
            fld["type"] = typ
        fillgiven, tfill = None, None
        needs = typ in ("integer", "float", "complex")
        if needs or rng.random() < 0.6:
            fillgiven, tfill = rfill(rng, typ)
            fld["fill"] = fillgiven
        else:
            tfill = "" if typ == "string" else None
        if rng.random() < 0.3:
            fld["unit"] = str(rng.choice(["m", "m: s # x", "%", "°C", "'", "[m/s]", "- x", "kg m^-3", "a: b"]))
        fields.append(fld)
        tfills.append((typ, fillgiven, tfill))
    nrows = int(rng.choice([1, 2, 3, 10, 40])) if not big else int(rng.choice([1000, 10000]))
    data = []
    for (typ, fillgiven, tfill) in tfills:
        data.append([rcell(rng, typ, fillgiven, tfill, missing) for _ in range(nrows)])
    schema = {"delimiter": delim, "missing": missing, "fields": fields}
    return schema, data, tfills


# ---------------------------------------------------------------------------------------------
# model


def eq_exact(a, b, fillcase=False):
    if type(a) is not type(b):
        return False
    if isinstance(a, float):
        if math.isnan(a) or math.isnan(b):
            return math.isnan(a) and math.isnan(b)
        if fillcase:
            return a == b
        return a == b and math.copysign(1, a) == math.copysign(1, b)
    if isinstance(a, complex):
        return eq_exact(a.real, b.real, True) and eq_exact(a.imag, b.imag, True)
    return a == b


def expected_cell(typ, tfill, fillgiven, v):
    """(expected value, is_fill_case).  Mirrors the documented semantics, not the code."""
    if typ == "boolean":
        return bool(v), False
    if tfill is None:
        return v, False
    if typ in ("float", "complex"):
        vn = cmath.isnan(v) if typ == "complex" else math.isnan(v)
        fn = cmath.isnan(tfill) if typ == "complex" else math.isnan(tfill)
        if vn and fn:
            return tfill, True
        if not vn and not fn and v == tfill:
            return tfill, True
        return v, False
    if v == tfill:
        return tfill, True
    return v, False


# ---------------------------------------------------------------------------------------------


def gen_cases(ctx):
    for i in range(ctx.share(ctx.scale(700, 200000))):
        rng = ctx.rng(1, i)
        yield {"kind": "roundtrip", "seed": int(rng.integers(1 << 31)), "big": bool(ctx.tier == "thorough" and rng.random() < 0.004)}
    for i in range(ctx.share(ctx.scale(300, 50000))):
        rng = ctx.rng(2, i)
        yield {"kind": "fault", "seed": int(rng.integers(1 << 31)), "fault": FAULTS[i % len(FAULTS)]}
    for i in range(ctx.share(ctx.scale(100, 20000))):
        rng = ctx.rng(3, i)
        yield {"kind": "terse", "seed": int(rng.integers(1 << 31))}
    if ctx.shard == 0:
        for k in range(len(CATALOGUE)):
            yield {"kind": "catalogue", "k": k}


FAULTS = ["drop_delimiter", "drop_missing", "drop_fields", "empty_fields", "bad_name", "numeric_without_fill", "unknown_type",
          "delimiter_eq_missing", "delimiter_in_missing", "column_shorter", "column_longer", "extra_column", "missing_column",
          "float_in_integer_column", "text_in_float_column", "bool_in_integer_column", "text_in_complex_column"]


def S(fields, delim=",", missing="-"):
    return {"delimiter": delim, "missing": missing, "fields": fields}


nan, inf = math.nan, math.inf
CATALOGUE = [
    (S([{"name": "a", "type": "string", "fill": ""}]), [["x", "", "y"]]),
    (S([{"name": "a", "type": "string"}]), [["x", "", "y"]]),
    (S([{"name": "a", "type": "string", "fill": "null"}]), [["x", "null", "y"]]),
    (S([{"name": "a", "type": "string", "fill": "yes"}]), [["x", "yes", "y"]]),
    (S([{"name": "a", "type": "string", "fill": "1.50"}]), [["x", "1.50", "y"]]),
    (S([{"name": "a", "type": "string", "fill": "a: b"}]), [["x", "a: b", "y"]]),
    (S([{"name": "a", "type": "string", "fill": "#"}]), [["x", "#", "y"]]),
    (S([{"name": "a", "type": "string", "fill": "N/A"}]), [["---", "q"]]),
    (S([{"name": "a", "type": "string", "fill": "N/A"}]), [["q", "---", "---", "z"]]),
    (S([{"name": "a", "type": "string", "fill": "N/A"}, {"name": "b", "type": "integer", "fill": 0}]), [["---", "q"], [1, 2]]),
    (S([{"name": "a", "type": "string", "fill": "N/A"}], missing="'"), [["x", "y"]]),
    (S([{"name": "a", "type": "string", "fill": "N/A"}], delim="'"), [["x", "y"]]),
    (S([{"name": "a", "type": "string", "fill": "N/A"}], missing=""), [["x", "y"]]),
    (S([{"name": "a", "type": "string", "fill": "N/A"}], missing="---"), [["x", "N/A", "y"]]),
    (S([{"name": "a", "type": "float", "fill": nan}]), [[1.5, nan, inf, -inf, -0.0, 1e-320, 1.7976931348623157e308]]),
    (S([{"name": "a", "type": "float", "fill": 0.0}]), [[1.5, nan, inf, 0.0]]),
    (S([{"name": "a", "type": "float", "fill": inf}]), [[1.5, nan, inf, 0.0]]),
    (S([{"name": "a", "type": "float", "fill": "NaN"}]), [[1.5, nan, 2.0]]),
    (S([{"name": "a", "type": "integer", "fill": -1}]), [[10**30, -1, 0, -5]]),
    (S([{"name": "a", "type": "integer", "fill": "999999"}]), [[999999, -1, 0]]),
    (S([{"name": "a", "type": "boolean"}]), [[True, False, True]]),
    (S([{"name": "a", "type": "boolean", "fill": False}]), [[True, False, True]]),
    (S([{"name": "a", "type": "boolean", "fill": True}]), [[True, False, True]]),
    (S([{"name": "a", "type": "complex", "fill": "NaN"}]), [[1 + 2j, complex(nan, 0), complex(0, inf), -0j]]),
    (S([{"name": "a", "type": "complex", "fill": 1 + 1j}]), [[1 + 2j, 1 + 1j]]),
    (S([{"name": "a", "type": "string", "fill": "q"}]), [['he said "hi"', "a,b", "it's", "é✓", "#c", "- a", "[1]", "{a}", "a  b"]]),
    (S([{"name": "a", "type": "string", "fill": "q"}, {"name": "b", "type": "string", "fill": "q"}]), [["", "x"], ["", ""]]),
    (S([{"name": "a", "type": "string", "fill": "q"}]), [["", "x", ""]]),
    (S([{"name": "a", "type": "string", "fill": "q", "unit": "m: s # x"}]), [["", "x", ""]]),
    (S([{"name": "a", "type": "float", "fill": "NaN"}], delim="."), [[1.5, 2.25]]),
    (S([{"name": "a", "type": "float", "fill": "NaN"}, {"name": "b", "type": "integer", "fill": "7"}], delim="-", missing="?"), [[-1.5, 2.25], [-3, 4]]),
    (S([{"name": "a", "type": "float", "fill": "NaN"}, {"name": "b", "type": "integer", "fill": "7"}], delim="#", missing="?"), [[-1.5, 2.25], [-3, 4]]),
    (S([{"name": "yes", "type": "string", "fill": "x"}, {"name": "null", "type": "integer", "fill": 0}]), [["a", "b"], [1, 2]]),
    (S([{"name": "a", "type": "string", "fill": "NaN"}]), [["x", "y"]]),
]


def tfills_of(schema):
    out = []
    for fld in schema["fields"]:
        typ = fld.get("type", "string")
        if "fill" in fld:
            g = fld["fill"]
            if g == "NaN" and typ != "string":
                t = PYT[typ](math.nan)
            else:
                t = PYT[typ](g) if typ != "boolean" else bool(g)
        else:
            g, t = None, ("" if typ == "string" else None)
        out.append((typ, g, t))
    return out


def check_case(ctx, case):
    pydrex = bootstrap.import_pydrex()
    io, err = pydrex.io, pydrex.exceptions
    scratch = os.environ.get("PVMON_SCRATCH", ".")
    path = os.path.join(scratch, f"c16-{os.getpid()}.scsv")
    kind = case["kind"]
    if kind == "terse":
        return _terse(ctx, io, err, case)
    if kind == "catalogue":
        schema, data = CATALOGUE[case["k"]]
        tf = tfills_of(schema)
        return _roundtrip(ctx, io, err, case, schema, [list(c) for c in data], tf, path)
    schema, data, tf = gen_valid(case["seed"], big=case.get("big", False))
    if kind == "roundtrip":
        return _roundtrip(ctx, io, err, case, schema, data, tf, path)
    return _fault(ctx, io, err, case, schema, data, tf, path)


def _roundtrip(ctx, io, err, case, schema, data, tf, path):
    import hashlib

    names = [f["name"] for f in schema["fields"]]
    kw = {}
    cseed = int(case.get("seed", case.get("k", 0)))
    if cseed % 4 == 2 and kind_is_roundtrip(case):
        # columns handed over as NumPy arrays / tuples instead of lists of Python scalars
        conv = []
        for (typ, g, tfill), col in zip(tf, data):
            if typ == "integer" and any(abs(int(v)) >= 2**62 for v in col):
                conv.append(tuple(col))
            elif typ == "string":
                conv.append(np.array(col, dtype=object) if cseed % 8 == 2 else tuple(col))
            else:
                conv.append(np.array(col))
        data_in = conv
    else:
        data_in = data
    if cseed % 3 == 1:   # optional header comments (single lines) must not disturb schema or data
        pool = ["Data from Fig. 5", "---", "schema:", "delimiter: ';'", "#hash", "unit: m/s", "é✓ — ok", "", "  fields:", "- name: x", "'quoted'", "a: b: c"]
        kw["comments"] = [pool[(cseed // 3 + j) % len(pool)] for j in range(1 + cseed % 4)]
    try:
        io.save_scsv(path, schema, data_in, **kw)
        with open(path, "rb") as f:
            raw = f.read()
        out = io.read_scsv(path)
    except Exception as e:
        ctx.case(case, nontrivial=False)
        ctx.check("roundtrip_completes", False, case, key=f"roundtrip_raises/{type(e).__name__}",
                  exc=f"{type(e).__name__}: {str(getattr(e, 'message', e))[:200]}", schema=_brief(schema),
                  file=_filehead(path))
        return
    finally:
        pass
    nonfill = 0
    ok_names = tuple(out._fields) == tuple(names)
    ctx.check("roundtrip_names", ok_names, case, got=list(out._fields), expected=names)
    bad = None
    if ok_names:
        for ci, ((typ, g, tfill), col) in enumerate(zip(tf, data)):
            got = out[ci]
            if len(got) != len(col):
                bad = (ci, "length", len(got), len(col))
                break
            for ri, v in enumerate(col):
                exp, fc = expected_cell(typ, tfill, g, v)
                nonfill += (not fc)
                if not eq_exact(got[ri], exp, fc):
                    bad = (ci, ri, repr(got[ri]), repr(exp), typ, repr(g))
                    break
            if bad:
                break
    # file-level clause: cells equal to the fill are written as the missing marker (and only those)
    try:
        import csv as _csv

        text = raw.decode("utf-8")
        body = text.split("---\n", 2)[2] if text.count("---\n") >= 2 else ""
        rows = [r for r in _csv.reader(body.splitlines(True), delimiter=schema["delimiter"]) if r != []]
        badfile = None
        if len(rows) == 1 + len(data[0]):
            for ri, row in enumerate(rows[1:]):
                for ci, ((typ, g, tfill), col) in enumerate(zip(tf, data)):
                    exp, fc = expected_cell(typ, tfill, g, col[ri])
                    is_missing = row[ci] == schema["missing"]
                    if typ != "boolean" and fc != is_missing and not (fc and str(col[ri]) == schema["missing"]):
                        badfile = (ci, ri, row[ci], repr(col[ri]), repr(g))
                        break
                if badfile:
                    break
            ctx.check("file_fill_cells_are_missing_marker", badfile is None, case, first=badfile, schema=_brief(schema))
        else:
            ctx.count("file_oracle_skipped_row_count")
    except Exception as e:
        ctx.count("file_oracle_errors")
    ctx.case({**case, "sha": hashlib.sha1(raw).hexdigest()[:12]}, nontrivial=nonfill > 0)
    ctx.check("roundtrip_values", bad is None, case, first_mismatch=bad, schema=_brief(schema), file=raw[:400].decode("utf-8", "replace") if bad else None)
    ctx.cls(f"fields={len(names)}")
    for (typ, g, t) in tf:
        ctx.cls(f"type={typ}")
    ctx.count("cells", sum(len(c) for c in data))
    if len(ctx.samples) < 3 and nonfill:
        ctx.sample(case, schema=_brief(schema), first_rows=[[repr(c[0])] for c in data][:4], file_head=raw[:300].decode("utf-8", "replace"))
    try:
        os.unlink(path)
    except OSError:
        pass


def kind_is_roundtrip(case):
    return case.get("kind") in ("roundtrip", "catalogue")


def _brief(schema):
    return {"delimiter": schema.get("delimiter"), "missing": schema.get("missing"),
            "fields": [{k: repr(v) for k, v in f.items()} for f in schema.get("fields", [])][:8]}


def _filehead(path):
    try:
        with open(path, "rb") as f:
            return f.read(400).decode("utf-8", "replace")
    except OSError:
        return None


def _fault(ctx, io, err, case, schema, data, tf, path):
    import copy

    rng = np.random.default_rng([int(case["seed"]), 9])
    schema = copy.deepcopy(schema)
    data = [list(c) for c in data]
    f = case["fault"]
    nf = len(schema["fields"])
    j = int(rng.integers(nf))

    def force_type(typ, fill):
        schema["fields"][j]["type"] = typ
        schema["fields"][j]["fill"] = fill
        n = len(data[j])
        data[j] = [{"integer": 3, "float": 2.5, "complex": 1 + 2j}[typ]] * n

    if f == "drop_delimiter":
        del schema["delimiter"]
    elif f == "drop_missing":
        del schema["missing"]
    elif f == "drop_fields":
        del schema["fields"]
    elif f == "empty_fields":
        schema["fields"] = []
        data = [[1]]
    elif f == "bad_name":
        schema["fields"][j]["name"] = str(rng.choice(["bad name", "1abc", "a-b", "", "a.b", "x y", "é!"]))
    elif f == "numeric_without_fill":
        typ = str(rng.choice(["integer", "float", "complex"]))
        force_type(typ, 0)
        del schema["fields"][j]["fill"]
    elif f == "unknown_type":
        schema["fields"][j]["type"] = str(rng.choice(["int", "str", "double", "bool", "number", "String", ""]))
    elif f == "delimiter_eq_missing":
        schema["missing"] = schema["delimiter"]
    elif f == "delimiter_in_missing":
        schema["missing"] = "a" + schema["delimiter"] + "b"
    elif f == "column_shorter":
        if nf < 2:
            schema["fields"].append({"name": "zzextra", "type": "integer", "fill": 0})
            data.append([1] * len(data[0]))
            j = 1
        jj = j if j > 0 else 1
        data[jj] = data[jj][:-1]
    elif f == "column_longer":
        if nf < 2:
            schema["fields"].append({"name": "zzextra", "type": "integer", "fill": 0})
            data.append([1] * len(data[0]))
        jj = j if j > 0 else 1
        data[jj] = data[jj] + [data[jj][-1]]
    elif f == "extra_column":
        data.append([1] * len(data[0]))
    elif f == "missing_column":
        if nf < 2:
            schema["fields"].append({"name": "zzextra", "type": "integer", "fill": 0})
        else:
            data = data[:-1]
    elif f == "float_in_integer_column":
        force_type("integer", 0)
        data[j][int(rng.integers(len(data[j])))] = 1.5
    elif f == "text_in_float_column":
        force_type("float", "NaN")
        data[j][int(rng.integers(len(data[j])))] = str(rng.choice(["abc", "1.2.3", "1,5", "--1", "0x10"]))
    elif f == "bool_in_integer_column":
        force_type("integer", 0)
        data[j][int(rng.integers(len(data[j])))] = True
    elif f == "text_in_complex_column":
        force_type("complex", "NaN")
        data[j][int(rng.integers(len(data[j])))] = str(rng.choice(["abc", "1+2i", "1 + 2j", "j1"]))
    ctx.case(case)
    ctx.cls(f"fault={f}")
    # a corrupted cell must not collide with the delimiter/missing marker by accident
    try:
        io.save_scsv(path, schema, data)
    except err.SCSVError:
        ctx.check("fault_refused_with_SCSVError", True, case)
        ctx.check("fault_leaves_no_partial_file_readable", True, case)
        return
    except Exception as e:
        ctx.check("fault_refused_with_SCSVError", False, case, key=f"fault/{f}/wrong_exception",
                  exc=f"{type(e).__name__}: {str(e)[:150]}", schema=_brief(schema))
        return
    ctx.check("fault_refused_with_SCSVError", False, case, key=f"fault/{f}/accepted", schema=_brief(schema),
              file=_filehead(path))


# ---------------------------------------------------------------------------------------------
# terse schema parser against a small model of the documented grammar


def _terse(ctx, io, err, case):
    rng = np.random.default_rng([int(case["seed"]), 11])
    if not hasattr(io, "parse_scsv_schema"):
        ctx.case(case, nontrivial=False)
        return
    delims = [c for c in PUNCT if c not in "dm:()"]
    delim = delims[int(rng.integers(len(delims)))]
    missing = str(rng.choice(["-", "?", "N/A", "NULL", "~", "x", "9"]))
    if delim in missing or "m" in missing or ":" in missing:
        missing = "?" if delim != "?" else "-"
    nf = int(rng.integers(1, 6))
    used = set()
    fields, text = [], f"d{delim}m{missing}:"
    tmap = {"string": "s", "integer": "i", "float": "f", "boolean": "b", "complex": "c"}
    for _ in range(nf):
        name = rname(rng, used)
        typ = TYPES[int(rng.integers(5))]
        spec_form = int(rng.integers(4))
        if spec_form == 0 and typ == "string":
            text += f"{name}()"
            fields.append({"name": name, "type": "string", "fill": ""})
        else:
            fill = {"string": str(rng.choice(["N/A", "", "none", "x y"])), "integer": str(int(rng.integers(-99, 99))),
                    "float": str(rng.choice(["NaN", "0.5", "-1e3"])), "boolean": str(rng.choice(["False", "True"])),
                    "complex": str(rng.choice(["NaN", "1+1j"]))}[typ]
            fld = {"name": name, "type": typ, "fill": fill}
            spec = f"{tmap[typ]}:{fill}"
            if spec_form == 3:
                unit = str(rng.choice(["m", "%", "m/s", "..."]))
                fld["unit"] = unit
                spec += f":{unit}"
            if spec_form == 1 and typ in ("string", "boolean"):
                spec = tmap[typ]
                fld["fill"] = ""
            text += f"{name}({spec})"
            fields.append(fld)
    exp = {"delimiter": delim, "missing": missing, "fields": fields}
    c2 = {**case, "terse": text}
    ctx.case(c2)
    try:
        got = io.parse_scsv_schema(text)
    except Exception as e:
        ctx.check("terse_schema_parsed", False, c2, key=f"terse_raises/{type(e).__name__}", exc=str(getattr(e, "message", e))[:150])
        return
    ctx.check("terse_schema_parsed", got == exp, c2, got=got, expected=exp)
    # malformed terse strings are refused with SCSVError
    for badtext in ("x" + text, text.split(":")[0], f"d{delim}:" + text.split(":", 1)[1], f"d{delim}m{missing}:", f"d{delim}m{missing}:a(q)"):
        try:
            io.parse_scsv_schema(badtext)
            ctx.check("terse_malformed_refused", False, {**case, "terse": badtext}, key="terse_malformed/accepted")
        except err.SCSVError:
            ctx.check("terse_malformed_refused", True, c2)
        except Exception as e:
            ctx.check("terse_malformed_refused", False, {**case, "terse": badtext}, key=f"terse_malformed/{type(e).__name__}", exc=str(e)[:100])


def run(ctx):
    bootstrap.import_pydrex()
    for case in gen_cases(ctx):
        check_case(ctx, case)
