"""C07 -- null forcing leaves the texture unchanged; unsupported regimes are rejected.

(1) derivatives: the two viscosity-bound regimes return all-zero rates for every input;
(2) integrated before/after comparison under L == 0 (every accepted regime), under the two null
    regimes with any L, and of the volume fractions with M* = 0 under any flow; F checked against
    the reference solution;
(3) exception oracle, exhaustive over regime in -2..10, phase in -1..3, fabric in -1..7 (direct
    calls) and at Mineral level: ValueError, never numbers, stored history untouched;
(3b) the same through pydrex.update_all with the rejected mineral at every list position;
(4) source-free failpoints: a velocity-gradient callable that raises on its k-th call and a
    get_regime callable that switches to an unsupported regime mid-integration: the exception
    propagates and the stored history is bit-identical (same objects, same digests).
"""
from __future__ import annotations

import warnings

import numpy as np

from .. import bootstrap, drive, gen
from . import c06

ID = "C07"
RULE = ("case = one null-forcing history (L=0 / null regime / M*=0), one direct derivatives call, one rejected ordinal "
        "combination (exhaustive grid), or one injected failure; distinct = descriptor digest; non-trivial = the case "
        "reached its deciding oracle (history completed / exception raised)")
ASSUMPTIONS = [
    "phase/fabric validation is required where phase and fabric are used (dislocation regimes, anchored in the CRSS lookup); "
    "in the null and diffusion regimes an invalid phase/fabric ordinal is only counted (null_regime_ignores_phase_fabric)",
    "null-forcing cases use volume vectors with no grain below chi/n (flooring is C09's business)",
]
TOLERANCES = {"dA": 1e-12, "df": 1e-12}
EXHAUSTIVE = False
REQUIRED_MONITORS = ["null_regime_zero_rates", "texture_unchanged[L=0]", "texture_unchanged[null_regime]", "texture_unchanged[after_switch_to_null]",
                     "fractions_unchanged[M=0]", "rejected_with_ValueError", "history_untouched_after_failure"]

UNSUPPORTED = (2, 3, 5)


def plan(tier):
    if tier == "quick":
        return [{"mode": "jit", "timeout": 900}] * 6
    return [{"mode": "jit", "timeout": 3400}] * 16


def gen_cases(ctx):
    for i in range(ctx.share(ctx.scale(600, 200000))):
        rng = ctx.rng(1, i)
        yield {"kind": "direct_null", "seed": int(rng.integers(1 << 31)), "regime": int(rng.choice([0, 7])),
               "combo": int(rng.integers(6)), "n": int(rng.choice([1, 2, 17, 200])), "tex": str(rng.choice(gen.TEXTURE_KINDS)),
               "vol": str(rng.choice(gen.VOLUME_KINDS)), "Lkind": str(rng.choice(gen.L_KINDS)),
               "scale": float(10.0 ** rng.uniform(-16, 3))}
    for i in range(ctx.share(ctx.scale(150, 16000))):
        rng = ctx.rng(2, i)
        sub = ["L0", "null_regime", "M0", "switch_to_null"][i % 4]
        c = drive.random_history_case(rng)
        c["kind"] = "null_history"
        c["sub"] = sub
        c["n"] = int(rng.choice([2, 10, 40]))
        c["N"] = int(rng.choice([1, 3, 10]))
        c["vol"] = str(rng.choice(["uniform", "dirichlet_flat", "dirichlet", "ties"]))
        c["F0"] = str(rng.choice(["I", "random"]))
        if sub == "L0":
            c["regime"] = int(rng.choice([4, 6, 0, 7, 1]))
        elif sub == "null_regime":
            c["regime"] = int(rng.choice([0, 7]))
        elif sub == "switch_to_null":
            c["regime"] = int(rng.choice([4, 6]))
            c["regime2"] = int(rng.choice([0, 7]))
            c["N"] = int(rng.choice([2, 4, 10]))
            c["equal"] = True
            c["reversed"] = False
        else:
            c["regime"] = int(rng.choice([4, 6]))
            c["params"]["gbm_mobility"] = 0.0
        yield c
    if ctx.shard == 0:
        # exhaustive ordinal grid, direct calls (ints)
        for regime in range(-2, 11):
            for phase in range(-1, 4):
                for fabric in range(-1, 8):
                    yield {"kind": "ordinals", "regime": regime, "phase": phase, "fabric": fabric}
    if ctx.shard == 1 % ctx.nshards:
        for regime in range(-1, 10):
            for phase in range(0, 3):
                for fabric in range(0, 7):
                    yield {"kind": "mineral_ordinals", "regime": regime, "phase": phase, "fabric": fabric}
    if ctx.shard == 2 % ctx.nshards:
        # a rejected mineral inside a bulk update (pydrex.update_all), at every list position, after 0 or 2 good steps
        bads = ([("phase", v) for v in (2, 3, 9, -1)] + [("regime", v) for v in (2, 3, 5, 9, -1)]
                + [("fabric", v) for v in ((0, 5), (1, 0), (0, 7), (1, -1))] + [("get_regime", v) for v in (2, 5, 8)])
        for bad in bads:
            for pos in range(3):
                for pre in (0, 2):
                    yield {"kind": "bulk_failure", "bad": list(bad), "pos": pos, "pre": pre}
    for i in range(ctx.share(ctx.scale(60, 8000))):
        rng = ctx.rng(4, i)
        c = drive.random_history_case(rng)
        c["kind"] = "failpoint"
        c["fp"] = ["raise_in_velocity_gradient", "switch_regime", "raise_in_position", "raise_in_get_regime", "raise_in_apply_gbs"][i % 5]
        c["n"] = int(rng.choice([2, 10, 40]))
        c["N"] = int(rng.choice([2, 4]))
        c["fail_update"] = int(rng.integers(c["N"]))
        c["fail_call"] = int(rng.integers(3, 40))
        c["bad_regime"] = int(rng.choice([2, 3, 5, 9, -1]))
        yield c


VALID = {(0, 0), (0, 1), (0, 2), (0, 3), (0, 4), (1, 5)}


def check_case(ctx, case):
    pydrex = bootstrap.import_pydrex()
    return {"direct_null": _direct_null, "null_history": _null_history, "ordinals": _ordinals,
            "mineral_ordinals": _mineral_ordinals, "failpoint": _failpoint, "bulk_failure": _bulk_failure}[case["kind"]](ctx, pydrex, case)


def _direct_null(ctx, pydrex, case):
    core = pydrex.core
    rng = np.random.default_rng([int(case["seed"]), 5])
    _, A = gen.texture(rng, case["n"], case["tex"])
    _, f = gen.volumes(rng, case["n"], case["vol"])
    _, L = gen.velgrad(rng, case["Lkind"], unit=True)
    L = L * case["scale"]
    phase, fabric = gen.combos(pydrex)[case["combo"]]
    dA, df = core.derivatives(
        regime=core.DeformationRegime(case["regime"]), phase=phase, fabric=fabric, n_grains=case["n"],
        orientations=A.copy(), fractions=f.copy(), strain_rate=(L + L.T) / 2, velocity_gradient=L.copy(),
        deformation_gradient_spin=rng.normal(size=(3, 3)), stress_exponent=1.5, deformation_exponent=3.5,
        nucleation_efficiency=5.0, gbm_mobility=125.0, volume_fraction=1.0)
    dA, df = np.asarray(dA), np.asarray(df)
    ctx.case(case)
    ok = dA.shape == (case["n"], 3, 3) and df.shape == (case["n"],) and not dA.any() and not df.any()
    ctx.check("null_regime_zero_rates", bool(ok), case, max_abs_dA=float(np.abs(dA).max()), max_abs_df=float(np.abs(df).max()))


def _null_history(ctx, pydrex, case):
    H = drive.History(pydrex, case)
    sub = case["sub"]
    chi = H.params["gbs_threshold"]
    if H.f0.min() < chi / H.n or sub == "switch_to_null":
        H.params["gbs_threshold"] = 0.0
    m = H.mineral()
    A0 = [a.copy() for a in m.orientations]
    f0 = [x.copy() for x in m.fractions]
    Lfun = (lambda t, x: np.zeros((3, 3))) if sub == "L0" else H.Lfun
    Fref = H.F0.copy()
    try:
        F = H.run(m, Lfun=Lfun)
    except Exception as e:
        ctx.case(case, nontrivial=False)
        if drive.solver_gave_up(case, e):
            ctx.count("solver_gave_up_under_user_tolerances")
            return
        ctx.check(f"null_history_completes[{sub}]", False, case, key=f"raises/{type(e).__name__}[{sub}]",
                  exc=f"{type(e).__name__}: {str(e)[:200]}", regime=case["regime"])
        return
    ctx.case(case)
    ctx.cls(f"{sub}/regime={case['regime']}")
    dA = max(float(np.abs(a - A0[0]).max()) for a in m.orientations)
    df = max(float(np.abs(x - f0[0]).max()) for x in m.fractions)
    ctx.extreme(f"dA[{sub}]", dA if sub != "M0" else 0.0)
    ctx.extreme(f"df[{sub}]", df)
    if sub == "L0":
        ctx.check("texture_unchanged[L=0]", dA <= 1e-12 and df <= 1e-12, case, dA=dA, df=df, regime=case["regime"])
        ctx.check("F_unchanged[L=0]", float(np.abs(F - H.F0).max()) <= 1e-12 * max(1, np.abs(H.F0).max()), case)
    elif sub == "null_regime":
        ctx.check("texture_unchanged[null_regime]", dA <= 1e-12 and df <= 1e-12, case, dA=dA, df=df, regime=case["regime"],
                  via=H.regime_via)
        ctx.cls(f"null_regime_via={H.regime_via}")
    elif sub == "switch_to_null":
        # after the switch (just before the middle partition point) nothing may change any more
        k0 = H.N // 2
        dA2 = max(float(np.abs(a - m.orientations[k0]).max()) for a in m.orientations[k0:])
        df2 = max(float(np.abs(x - m.fractions[k0]).max()) for x in m.fractions[k0:])
        moved = float(np.abs(m.orientations[k0] - m.orientations[0]).max())
        ctx.check("texture_unchanged[after_switch_to_null]", dA2 <= 1e-12 and df2 <= 1e-12, case, dA=dA2, df=df2,
                  regime2=case["regime2"], moved_before_switch=moved)
    else:
        ctx.check("fractions_unchanged[M=0]", df <= 1e-12, case, df=df)
        ctx.count("M0_histories_with_rotating_texture", int(dA > 1e-6))
    if sub != "L0":
        for a, b in zip(H.ts[:-1], H.ts[1:]):
            Fref = c06.reference(H, a, b, Fref)
        eps = H.strain_upto(H.N - 1)
        bound = 5e-3 + 1e-3 * (H.N + 2 * eps)
        rel = float(np.abs(F - Fref).max() / np.abs(Fref).max())
        okF = rel <= bound
        key, expl = "F_follows_reference", None
        if not okF and case["L"]["mode"] != "const":
            # known finding K10 (see C06): re-run with a capped solver step; agreement then = adaptive steps skipped a variation of L
            key = "F_equals_reference/adaptive_steps_skip_variation_of_L"
            try:
                mb = H.mineral()
                Fb = H.run(mb, solver_kw={"max_step": abs(H.ts[1] - H.ts[0]) / 25 if len(H.ts) > 1 else None})
                expl = bool(float(np.abs(Fb - Fref).max() / np.abs(Fref).max()) <= bound)
            except Exception:
                expl = False
        ctx.check("F_follows_reference", okF, case, key=key, explained=expl, rel=rel, bound=bound)
    ctx.check("snapshot_count", len(m.orientations) == H.N + 1 and len(m.fractions) == H.N + 1, case)
    if len(ctx.samples) < 3:
        ctx.sample(case, dA=dA, df=df)


def _expect_valueerror(ctx, name, fn, case, **obs):
    try:
        r = fn()
    except ValueError:
        ctx.check(name, True, case)
        return True
    except Exception as e:
        ctx.check(name, False, case, key=f"{name}/wrong_exception", got=f"{type(e).__name__}: {str(e)[:150]}", **obs)
        return False
    ctx.check(name, False, case, key=f"{name}/returned_numbers", got=str(type(r)), **obs)
    return False


def _ordinals(ctx, pydrex, case):
    core = pydrex.core
    regime, phase, fabric = case["regime"], case["phase"], case["fabric"]
    A = np.stack([gen.SIGNED_PERMS[3], np.eye(3)]) @ gen.haar(np.random.default_rng(1))
    f = np.array([0.4, 0.6])
    L = np.array([[0.0, 2.0, 0], [0, 0, 0], [0, 0, 0]])

    def fn():
        return core.derivatives(regime, phase, fabric, 2, A.copy(), f.copy(), (L + L.T) / 2, L.copy(), np.zeros((3, 3)),
                                1.5, 3.5, 5.0, 125.0, 1.0)

    ctx.case(case)
    valid_regime = 0 <= regime <= 7 and regime not in UNSUPPORTED
    if not valid_regime:
        _expect_valueerror(ctx, "rejected_with_ValueError", fn, case, why="unsupported or out-of-range regime")
    elif regime in (4, 6):
        if (phase, fabric) in VALID:
            try:
                dA, df = fn()
                ctx.check("valid_ordinals_accepted", bool(np.isfinite(dA).all() and np.isfinite(df).all()), case)
            except Exception as e:
                ctx.check("valid_ordinals_accepted", False, case, exc=f"{type(e).__name__}: {e}")
        else:
            _expect_valueerror(ctx, "rejected_with_ValueError", fn, case, why="invalid or mismatched phase/fabric")
    else:
        # null / diffusion regimes: phase and fabric are not used; only record what happens
        try:
            fn()
            if (phase, fabric) not in VALID:
                ctx.count("null_regime_ignores_phase_fabric")
        except ValueError:
            ctx.count("null_regime_rejects_phase_fabric")


def _mineral_ordinals(ctx, pydrex, case):
    """Same at Mineral level: a rejected update raises ValueError and leaves the history untouched."""
    regime, phase, fabric = case["regime"], case["phase"], case["fabric"]
    valid_regime = 0 <= regime <= 7 and regime not in UNSUPPORTED
    must_reject = (not valid_regime) or (regime in (4, 6) and (phase, fabric) not in VALID)
    if phase not in (0, 1):
        # a phase outside the enumeration cannot be listed in the assemblage: covered by the direct grid
        return
    core = pydrex.core
    try:
        m = pydrex.Mineral(phase=phase, fabric=fabric, regime=regime, n_grains=4, seed=3)
    except Exception:
        return
    params = gen.params_dict(pydrex, core.MineralPhase(phase))
    before = ([id(a) for a in m.orientations], [drive.sha(a) for a in m.orientations],
              [id(a) for a in m.fractions], [drive.sha(a) for a in m.fractions])
    L = np.array([[0.0, 2.0, 0], [0, 0, 0], [0, 0, 0]])

    def fn():
        with warnings.catch_warnings():
            warnings.simplefilter("ignore")
            return m.update_orientations(params, np.eye(3), lambda t, x: L, (0.0, 0.3, lambda t: np.zeros(3)))

    ctx.case(case)
    if must_reject:
        _expect_valueerror(ctx, "rejected_with_ValueError", fn, case, level="Mineral")
        _history_untouched(ctx, m, before, case)
    elif regime in (4, 6):
        try:
            fn()
            ctx.check("valid_ordinals_accepted", len(m.orientations) == 2, case, level="Mineral")
        except Exception as e:
            ctx.check("valid_ordinals_accepted", False, case, exc=f"{type(e).__name__}: {e}", level="Mineral")


def _history_untouched(ctx, m, before, case):
    after = ([id(a) for a in m.orientations], [drive.sha(a) for a in m.orientations],
             [id(a) for a in m.fractions], [drive.sha(a) for a in m.fractions])
    ctx.check("history_untouched_after_failure", after == before, case,
              n_before=len(before[0]), n_after=len(after[0]), nf_after=len(after[2]))


class _Injected(Exception):
    pass


def _digest(m):
    return ([id(a) for a in m.orientations], [drive.sha(a) for a in m.orientations],
            [id(a) for a in m.fractions], [drive.sha(a) for a in m.fractions])


def _bulk_failure(ctx, pydrex, case):
    """One mineral of a bulk update is rejected (invalid phase ordinal, unsupported regime, fabric of the other
    phase, get_regime returning an unsupported regime): update_all must raise instead of returning numbers, the
    rejected mineral's stored history stays bit-identical, and the other minerals' histories are append-only."""
    core = pydrex.core
    P, Fb, R = core.MineralPhase, core.MineralFabric, core.DeformationRegime
    what, v = case["bad"]
    good = [pydrex.Mineral(phase=P.olivine, fabric=Fb.olivine_A, regime=R.matrix_dislocation, n_grains=6, seed=5),
            pydrex.Mineral(phase=P.enstatite, fabric=Fb.enstatite_AB, regime=R.matrix_dislocation, n_grains=6, seed=6)]
    try:
        if what == "phase":
            bad = pydrex.Mineral(phase=v, fabric=Fb.olivine_A, regime=R.matrix_dislocation, n_grains=6, seed=7)
        elif what == "regime":
            bad = pydrex.Mineral(phase=P.olivine, fabric=Fb.olivine_B, regime=v, n_grains=6, seed=7)
        elif what == "fabric":
            bad = pydrex.Mineral(phase=v[0], fabric=v[1], regime=R.matrix_dislocation, n_grains=6, seed=7)
        else:
            bad = pydrex.Mineral(phase=P.olivine, fabric=Fb.olivine_E, regime=R.matrix_dislocation, n_grains=6, seed=7)
    except Exception:
        ctx.count("bulk_failure:rejected_at_construction")
        ctx.case(case, nontrivial=False)
        return
    params = gen.params_dict(pydrex, P.olivine)
    params["phase_assemblage"] = (P.olivine, P.enstatite)
    params["phase_fractions"] = (0.7, 0.3)
    L = np.array([[0.0, 2.0, 0], [0, 0, 0.3], [0, 0, 0]])
    Lfun, pos = (lambda t, x: L), (lambda t: np.zeros(3))
    F = np.eye(3)
    t = 0.0
    with warnings.catch_warnings():
        warnings.simplefilter("ignore")
        bad_phase, bad_regime = bad.phase, bad.regime
        # good steps first (the to-be-rejected mineral takes part with valid settings where that is possible)
        if what in ("regime", "phase"):
            bad.regime = R.matrix_dislocation
            bad.phase = P.olivine
        if what != "fabric":
            for _ in range(case["pre"]):
                F = pydrex.update_all(good + [bad], params, F, Lfun, (t, t + 0.1, pos))
                t += 0.1
        bad.phase, bad.regime = bad_phase, bad_regime
        minerals = list(good)
        minerals.insert(case["pos"], bad)
        before = [_digest(m) for m in minerals]
        get_regime = (lambda t_, x: v) if what == "get_regime" else None
        try:
            r = pydrex.update_all(minerals, params, F, Lfun, (t, t + 0.1, pos), get_regime=get_regime)
            raised = None
        except Exception as e:
            raised, r = e, None
    ctx.case(case)
    ctx.cls(f"bulk_failure={what}")
    expect = Exception if what == "phase" else ValueError
    ctx.check("bulk_update_rejected", isinstance(raised, expect), case, key=f"bulk_update_rejected/{what}",
              got="returned " + type(r).__name__ if raised is None else f"{type(raised).__name__}: {str(raised)[:120]}")
    for k, (m, b) in enumerate(zip(minerals, before)):
        a = _digest(m)
        nb = len(b[0])
        if m is bad or what == "get_regime" and raised is not None and k >= 0 and len(a[0]) == nb:
            ok = a == b
        else:
            ok = len(a[0]) in (nb, nb + 1) and len(a[2]) == len(a[0]) and all(x[:nb] == y for x, y in zip(a, b))
        ctx.check("history_untouched_after_failure", ok, case, key="history_untouched_after_failure/bulk", mineral=k,
                  rejected=bool(m is bad), n_before=nb, n_after=len(a[0]), nf_after=len(a[2]))


def _failpoint(ctx, pydrex, case):
    H = drive.History(pydrex, case)
    m = H.mineral()
    core = pydrex.core
    fp = case["fp"]
    ts = H.ts
    fired = {"n": 0}
    with warnings.catch_warnings():
        warnings.simplefilter("ignore")
        F = H.F0.copy()
        for k, (a, b) in enumerate(zip(ts[:-1], ts[1:])):
            if k != case["fail_update"]:
                F = m.update_orientations(H.params, F, H.Lfun, (a, b, H.posfun))
                continue
            before = ([id(x) for x in m.orientations], [drive.sha(x) for x in m.orientations],
                      [id(x) for x in m.fractions], [drive.sha(x) for x in m.fractions])
            calls = {"n": 0}
            get_regime = None
            Lfun, posfun = H.Lfun, H.posfun
            if fp == "raise_in_velocity_gradient":
                def Lfun(t, x, _f=H.Lfun):
                    calls["n"] += 1
                    if calls["n"] >= case["fail_call"]:
                        fired["n"] += 1
                        raise _Injected("failpoint in velocity gradient callable")
                    return _f(t, x)
            elif fp == "raise_in_position":
                def posfun(t, _f=H.posfun):
                    calls["n"] += 1
                    if calls["n"] >= case["fail_call"] + 8:
                        fired["n"] += 1
                        raise _Injected("failpoint in position callable")
                    return _f(t)
            elif fp == "raise_in_get_regime":
                def get_regime(t, x):
                    calls["n"] += 1
                    if calls["n"] >= case["fail_call"]:
                        fired["n"] += 1
                        raise _Injected("failpoint in get_regime callable")
                    return core.DeformationRegime(H.regime)
            elif fp == "raise_in_apply_gbs":
                # fault injected *inside* the update, after at least one solver step has been taken
                orig_gbs = pydrex.utils.apply_gbs

                def failing_gbs(*args, **kwargs):
                    calls["n"] += 1
                    if calls["n"] >= 1 + case["fail_call"] % 4:
                        fired["n"] += 1
                        raise _Injected("failpoint in apply_gbs")
                    return orig_gbs(*args, **kwargs)

                pydrex.utils.apply_gbs = failing_gbs
            else:
                mid = a + 0.5 * (b - a)

                def get_regime(t, x):
                    if t > mid:
                        fired["n"] += 1
                        return case["bad_regime"]
                    return core.DeformationRegime(H.regime)
            try:
                F = m.update_orientations(H.params, F, Lfun, (a, b, posfun), get_regime=get_regime)
                raised = None
            except Exception as e:
                raised = e
            finally:
                if fp == "raise_in_apply_gbs":
                    pydrex.utils.apply_gbs = orig_gbs
            if fired["n"] == 0:
                ctx.count("failpoint_not_reached")
                ctx.case(case, nontrivial=False)
                return
            ctx.case(case)
            ctx.cls(f"failpoint={fp}")
            if fp == "switch_regime":
                ctx.check("failure_propagates", isinstance(raised, ValueError), case, fp=fp,
                          got=None if raised is None else f"{type(raised).__name__}: {str(raised)[:120]}")
            else:
                ctx.check("failure_propagates", isinstance(raised, _Injected), case, fp=fp,
                          got=None if raised is None else f"{type(raised).__name__}: {str(raised)[:120]}")
            _history_untouched(ctx, m, before, case)
            # the mineral must remain usable: a subsequent valid update appends exactly one snapshot
            m.regime = core.DeformationRegime(H.regime)
            nb = len(m.orientations)
            try:
                m.update_orientations(H.params, np.eye(3), H.Lfun, (a, b, H.posfun))
                ctx.check("usable_after_failure", len(m.orientations) == nb + 1 and len(m.fractions) == nb + 1, case)
            except Exception as e:
                ctx.check("usable_after_failure", False, case, exc=f"{type(e).__name__}: {str(e)[:150]}")
            return


def run(ctx):
    bootstrap.import_pydrex()
    for case in gen_cases(ctx):
        check_case(ctx, case)
