"""C12 -- elastic symmetry decomposition is correct and frame-independent.

For each stiffness matrix: K, G against independent Voigt-invariant formulas; percent anisotropy
against an independent 3^4-tensor norm distance to the isotropic tensor; paired execution of
elasticity_components on the tensor expressed in rotated frames (all eight scalars equal, hexagonal
axis unit and co-rotating up to sign).  For orthorhombic tensors with distinct axes: monoclinic and
triclinic parts vanish and the squared percentages obey Pythagoras.
"""
from __future__ import annotations

import numpy as np

from .. import bootstrap, drive, gen
from .c10 import KG, ref_average, to4, to6

ID = "C12"
RULE = ("case = one stiffness tensor (built-in single crystals, random positive-definite orthorhombic tensors, Voigt averages of "
        "random / clustered / girdled / evolved textures) decomposed in the original and in several rotated frames; distinct = "
        "descriptor digest; non-trivial = percent anisotropy > 0.1 and (for the frame part) both contraction eigen-gaps > 1e-3")
ASSUMPTIONS = ["frame-independence is decided only where the dilatational and deviatoric eigenvalues are separated by > 1e-3 of the norm "
               "(the property's restriction); skipped cases are counted",
               "percentages compared within 1e-6 absolute, axis within 1e-6 (1 - |cos|)"]
TOLERANCES = {"percentages": 1e-6, "moduli": "1e-9 relative", "axis": 1e-6}
REQUIRED_MONITORS = ["moduli_equal_voigt_invariants", "percent_anisotropy_equals_norm_distance", "frame_independent_scalars",
                     "hexagonal_axis_corotates", "orthorhombic_mono_tric_vanish", "orthorhombic_pythagoras"]
KEYS = ["bulk_modulus", "shear_modulus", "percent_anisotropy", "percent_hexagonal", "percent_tetragonal",
        "percent_orthorhombic", "percent_monoclinic", "percent_triclinic"]


def plan(tier):
    if tier == "quick":
        return [{"mode": "jit", "timeout": 900}] * 6
    return [{"mode": "jit", "timeout": 3400}] * 16


def gen_cases(ctx):
    for i in range(ctx.share(ctx.scale(420, 48000))):
        rng = ctx.rng(1, i)
        r = i % 7
        kind = "builtin" if r == 0 else "ortho" if r in (1, 2, 3) else "texture"
        yield {"kind": kind, "seed": int(rng.integers(1 << 31)), "which": int(rng.integers(2)),
               "n": int(rng.choice([5, 30, 300])), "tex": str(rng.choice(["random", "cluster_wide", "cluster", "girdle", "mixed"])),
               "vol": str(rng.choice(["uniform", "dirichlet", "dirichlet_sharp"])), "nrot": ctx.scale(4, 8)}
    for i in range(ctx.share(ctx.scale(6, 300))):
        rng = ctx.rng(2, i)
        c = drive.random_history_case(rng)
        c.update(kind="evolved", n=int(rng.choice([30, 100])), N=int(rng.choice([2, 5])), strain=float(rng.choice([0.5, 1.5])),
                 regime=4, nrot=3)
        c["L"]["mode"] = "const"
        yield c


def ortho_tensor(rng):
    X = rng.normal(size=(3, 3))
    U = X @ X.T + 3 * np.eye(3)
    U *= 40
    C = np.zeros((6, 6))
    C[:3, :3] = U
    C[3, 3], C[4, 4], C[5, 5] = rng.uniform(20, 120, size=3)
    return C


def rotate6(C, Q):
    return to6(np.einsum("ia,jb,kc,ld,abcd->ijkl", Q, Q, Q, Q, to4(C), optimize=True))


def iso4(K, G):
    d = np.eye(3)
    return (K - 2 * G / 3) * np.einsum("ij,kl->ijkl", d, d) + G * (np.einsum("ik,jl->ijkl", d, d) + np.einsum("il,jk->ijkl", d, d))


def gaps(pydrex, C):
    d, v = pydrex.tensors.voigt_decompose(C)
    d, v = np.asarray(d), np.asarray(v)
    gd = np.diff(np.linalg.eigvalsh(d)).min() / np.linalg.norm(d)
    gv = np.diff(np.linalg.eigvalsh(v)).min() / np.linalg.norm(v)
    return float(min(gd, gv))


def check_case(ctx, case):
    pydrex = bootstrap.import_pydrex()
    dg = pydrex.diagnostics
    rng = np.random.default_rng([int(case["seed"]), 5])
    kind = case["kind"]
    S = pydrex.minerals.StiffnessTensors()
    if kind == "builtin":
        C0 = [S.olivine, S.enstatite][case["which"]].copy()
        ortho = True
    elif kind == "ortho":
        C0 = ortho_tensor(rng)
        ortho = True
    elif kind == "texture":
        _, A = gen.texture(rng, case["n"], case["tex"])
        _, f = gen.volumes(rng, case["n"], case["vol"])
        base = [S.olivine, S.enstatite][case["which"]]
        C0 = ref_average([(1.0, to4(base), A, f)], None)
        ortho = False
    else:
        H = drive.History(pydrex, case)
        m = H.mineral()
        try:
            H.run(m)
        except Exception as e:
            ctx.case(case, nontrivial=False)
            ctx.count("evolved_texture_failed")
            return
        base = S.olivine if int(H.phase) == 0 else S.enstatite
        C0 = ref_average([(1.0, to4(base), m.orientations[-1], m.fractions[-1])], None)
        ortho = False
    ctx.cls(f"kind={kind}")
    # units: GPa as tabulated, Pa, TPa or compliance-like magnitudes -- percentages and the axis are scale-free and the
    # moduli scale linearly, so every clause below must hold unchanged
    unit = [1.0, 1.0, 1e9, 1e-3, 1e-12][int(case["seed"]) % 5]
    C0 = C0 * unit
    ctx.cls(f"unit={unit:g}")
    out0 = dg.elasticity_components(ctx.buf("Cstack", np.array([C0])) if case["seed"] % 2 else np.array([C0]))
    K, G = KG(C0)
    ok = abs(out0["bulk_modulus"][0] - K) <= 1e-9 * abs(K) and abs(out0["shear_modulus"][0] - G) <= 1e-9 * abs(G)
    ctx.check("moduli_equal_voigt_invariants", bool(ok), case, K=float(out0["bulk_modulus"][0]), Kexp=K, G=float(out0["shear_modulus"][0]), Gexp=G)
    X = to4(C0)
    pa = 100 * np.linalg.norm(X - iso4(K, G)) / np.linalg.norm(X)
    got = float(out0["percent_anisotropy"][0])
    ctx.check("percent_anisotropy_equals_norm_distance", abs(got - pa) <= 1e-6 and -1e-9 <= got <= 100 + 1e-9, case, got=got, exp=float(pa))
    if case["seed"] % 4 == 0:
        ctx.fresh_outputs("elasticity_components", dg.elasticity_components, np.array([C0]), case=case)
    ax0 = np.asarray(out0["hexagonal_axis"][0])
    ctx.check("hexagonal_axis_unit", abs(np.linalg.norm(ax0) - 1) <= 1e-9, case)
    for k in KEYS[3:]:
        v = float(out0[k][0])
        ctx.check("percentages_in_range", -1e-9 <= v <= 100 + 1e-9, case, key_=k, v=v)
    g0 = gaps(pydrex, C0)
    conditioned = g0 > 1e-3
    nontriv = bool(pa > 0.1 and conditioned)
    ctx.case(case, nontrivial=nontriv)
    if not conditioned:
        ctx.count("frame_part_skipped_illconditioned")
    # rotated frames
    for j in range(case["nrot"]):
        qk, Q = drive.hostile_rotation(rng)
        if kind in ("builtin", "ortho") and j == 0:
            qk, Q = "haar", gen.haar(rng)
        C1 = rotate6(C0, Q)
        out1 = dg.elasticity_components(ctx.buf("Cstack", np.array([C1])) if case["seed"] % 2 else np.array([C1]))
        if conditioned:
            dmax = max(abs(float(out1[k][0]) - float(out0[k][0])) for k in KEYS[2:])
            dmod = max(abs(float(out1[k][0]) - float(out0[k][0])) / abs(float(out0[k][0])) for k in KEYS[:2])
            ctx.extreme("frame_scalar_diff", dmax)
            ctx.check("frame_independent_scalars", dmax <= 1e-6 and dmod <= 1e-9, case, dmax=dmax, Q=qk,
                      base={k: round(float(out0[k][0]), 6) for k in KEYS[2:]}, rot={k: round(float(out1[k][0]), 6) for k in KEYS[2:]})
            ax1 = np.asarray(out1["hexagonal_axis"][0])
            dax = 1 - abs(float(np.dot(Q @ ax0, ax1)))
            ctx.extreme("axis_misfit", dax)
            # the axis is only determined when the hexagonal part is non-degenerate
            if float(out0["percent_hexagonal"][0]) > 1e-3:
                ctx.check("hexagonal_axis_corotates", dax <= 1e-6 and abs(np.linalg.norm(ax1) - 1) <= 1e-9, case, dax=dax, Q=qk)
        if ortho and conditioned:
            mono, tric = float(out1["percent_monoclinic"][0]), float(out1["percent_triclinic"][0])
            ctx.extreme("ortho_mono_tric", max(mono, tric))
            ctx.check("orthorhombic_mono_tric_vanish", mono <= 1e-6 and tric <= 1e-6, case, mono=mono, tric=tric, Q=qk)
            s2 = sum(float(out1[k][0]) ** 2 for k in ("percent_hexagonal", "percent_tetragonal", "percent_orthorhombic"))
            a2 = float(out1["percent_anisotropy"][0]) ** 2
            ctx.check("orthorhombic_pythagoras", abs(s2 - a2) <= 1e-6 * (1 + a2), case, s2=s2, a2=a2, Q=qk)
    if len(ctx.samples) < 3 and nontriv:
        ctx.sample(case, percent_anisotropy=got, percent_hexagonal=float(out0["percent_hexagonal"][0]), eigen_gap=g0)


def run(ctx):
    bootstrap.import_pydrex()
    for case in gen_cases(ctx):
        check_case(ctx, case)


def finalize(merged, tier):
    r = []
    sk = merged["counters"].get("frame_part_skipped_illconditioned", 0)
    if merged["evaluations"] and sk > 0.5 * merged["evaluations"]:
        r.append(f"{sk}/{merged['evaluations']} tensors skipped as ill-conditioned (>50%)")
    return r
