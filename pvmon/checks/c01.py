"""C01 -- every stored snapshot is a valid texture, after any update history.

Monitors: (1) icontract snapshot/postcondition on Mineral.update_orientations (exactly one snapshot
appended, same shape, earlier snapshots bit-identical and the same objects); (2) valid-texture oracle
on every new stored snapshot with the property's own bound 5e-3 + 1e-3*(N + 2*strain);
(3) recording wrapper on utils.extract_vars (every solver state unpacked lies on the simplex and in
[-1,1]; counts how often the clip/renormalisation was load-bearing); (4) constructor determinism.
The C03 rate oracle rides along on every RHS evaluation.
"""
from __future__ import annotations

import numpy as np

from .. import bootstrap, drive, gen, refmodels

ID = "C01"
RULE = ("cases = random hostile update histories (phase x fabric x accepted regime x texture class x volume class "
        "x L(t,x) class x partition x parameters) regenerated from a JSON descriptor, plus constructor cases; "
        "distinct = distinct descriptor digest; non-trivial = the history completed >=1 update with a non-zero "
        "velocity gradient (null-regime and constructor cases count as non-trivial only when they evaluated the "
        "snapshot oracle)")
ASSUMPTIONS = [
    "universal quantifier sampled, not exhausted; n_grains <= 200 (quick) / 2000 (thorough)",
    "accumulated strain for the bound is integrated by the harness along the driven history",
    "matrix_diffusion orthonormality failure is known finding K1 (only when every in-solver rate is one matrix for all grains)",
]
TOLERANCES = {"orthonormal": "5e-3 + 1e-3*(N + 2*strain) (from the property)", "fractions_sum": 1e-9}
REQUIRED_MONITORS = ["snapshot_valid", "appended_exactly_one", "earlier_snapshots_untouched", "extract_vars_on_manifold"]

ACCEPTED_REGIMES = (4, 6, 0, 7, 1)


def plan(tier):
    if tier == "quick":
        return [{"mode": "jit", "timeout": 900}] * 6
    return [{"mode": "jit", "timeout": 3000}] * 14 + [{"mode": "bounds", "timeout": 3000}, {"mode": "suite", "timeout": 3300}]


class PostBroken(Exception):
    pass


def install_contract(pydrex, ctx, state, window=None):
    """icontract postcondition on Mineral.update_orientations. Conditions record and return True.
    ``window``: digest only the first and the last ``window`` stored snapshots (long suite simulations)."""
    import icontract

    M = pydrex.minerals.Mineral
    if getattr(M.update_orientations, "_pvmon_contract", False):
        return

    def _sha(lst):
        if window is None or len(lst) <= window + 1:
            return [drive.sha(a) for a in lst]
        k = len(lst)
        return [drive.sha(a) if (i == 0 or i >= k - window) else None for i, a in enumerate(lst)]

    def snap(self):
        return (
            [id(a) for a in self.orientations], _sha(self.orientations),
            [id(f) for f in self.fractions], _sha(self.fractions),
            [tuple(np.shape(a)) for a in self.orientations], [tuple(np.shape(f)) for f in self.fractions],
        )

    def post(self, result, OLD):
        ida, sha_a, idf, sha_f, shp_a, shp_f = OLD.st
        case = state.get("case")
        ok1 = len(self.orientations) == len(ida) + 1 and len(self.fractions) == len(idf) + 1
        ctx.check("appended_exactly_one", ok1, case, n_before=len(ida), n_after=len(self.orientations),
                  nf_after=len(self.fractions))
        k = min(len(ida), len(self.orientations))
        same = all(id(self.orientations[i]) == ida[i] and (sha_a[i] is None or drive.sha(self.orientations[i]) == sha_a[i]) for i in range(k))
        k2 = min(len(idf), len(self.fractions))
        same &= all(id(self.fractions[i]) == idf[i] and (sha_f[i] is None or drive.sha(self.fractions[i]) == sha_f[i]) for i in range(k2))
        ctx.check("earlier_snapshots_untouched", same, case)
        if ok1:
            shp = tuple(np.shape(self.orientations[-1])) == shp_a[-1] and tuple(np.shape(self.fractions[-1])) == shp_f[-1]
            ctx.check("same_shape", shp, case, got=[list(np.shape(self.orientations[-1])), list(np.shape(self.fractions[-1]))])
        return True

    wrapped = icontract.snapshot(snap, name="st")(icontract.ensure(post, error=PostBroken)(M.update_orientations))
    wrapped._pvmon_contract = True
    M.update_orientations = wrapped


def gen_cases(ctx):
    # first case of every shard: a long default-options history that is preceded by a loose-tolerance preview on a
    # throwaway mineral (see check_case): options of one call must not become the defaults of the next
    yield {"kind": "history", "seed": 7 * (1000 + ctx.shard), "combo": int(ctx.shard % 6), "regime": 4, "n": 50, "tex": "random", "vol": "uniform",
           "L": {"kind": "simple_shear", "seed": 11 + ctx.shard, "mode": "const", "k": 1.0}, "strain": 2.5, "N": 5, "equal": True,
           "params": {"stress_exponent": 1.5, "deformation_exponent": 3.5, "nucleation_efficiency": 5.0, "gbm_mobility": 125.0, "gbs_threshold": 0.3},
           "t0": 0.0, "regime_via": "static", "layout": "C", "reversed": False, "solver": "default"}
    n_hist = ctx.share(ctx.scale(140, 4000)) // (3 if ctx.mode == "bounds" else 1)
    for i in range(n_hist):
        rng = ctx.rng(1, i)
        r = rng.random()
        if r < 0.62:
            regime = int(rng.choice([4, 6]))
        elif r < 0.80:
            regime = int(rng.choice([0, 7]))
        else:
            regime = 1
        big = ctx.tier == "thorough" and rng.random() < 0.03
        case = drive.random_history_case(rng, regime=regime)
        if big:
            case["n"] = int(rng.choice([1000, 2000]))
            case["N"] = int(rng.choice([1, 3]))
        if rng.random() < 0.08:
            case["N"] = 100
            case["n"] = int(rng.choice([2, 3, 10]))
            case["strain"] = 2.0
        if rng.random() < 0.1:
            case["params"]["nucleation_efficiency"] = 50.0
        if regime != 1 and rng.random() < 0.12:
            case["regime2"] = int(rng.choice([0, 7, 4, 6]))   # regime switch half-way (through get_regime)
        case["kind"] = "history"
        yield case
    for i in range(ctx.share(ctx.scale(36, 1200)) // (3 if ctx.mode == "bounds" else 1)):
        # a two-phase aggregate driven through pydrex.update_all, one segment of the history being rejected
        rng = ctx.rng(3, i)
        case = drive.random_history_case(rng, regime=int(rng.choice([4, 6])), regime_via="static", solver="default", reversed=False)
        case.update(kind="bulk_rejection", n=int(rng.choice([3, 10, 40])), N=int(rng.choice([3, 5])), phi=float(rng.choice([0.7, 0.4])),
                    reject=str(rng.choice(["unsupported_regime", "omitted_phase", "raising_callable", "none"], p=[0.35, 0.3, 0.25, 0.1])),
                    bad_regime=int(rng.choice([2, 3, 5, 9])), order=int(rng.integers(2)))
        case["reject_at"] = int(rng.integers(case["N"]))
        case["L"]["mode"] = str(rng.choice(["const", "timedep"]))
        yield case
    for i in range(ctx.share(ctx.scale(12, 200))):
        rng = ctx.rng(2, i)
        yield {"kind": "constructor", "seed": int(rng.integers(1 << 31)), "n": int(rng.choice([2, 3, 50, 500, 3500]))}


def check_case(ctx, case):
    pydrex = bootstrap.import_pydrex()
    state = _state(ctx, pydrex)
    if case["kind"] == "constructor":
        return _constructor(ctx, pydrex, case)
    state["case"] = case
    mon = state["mon"]
    mon.case = case
    H = drive.History(pydrex, case)
    if case["kind"] == "bulk_rejection":
        return _bulk_rejection(ctx, pydrex, case, state, H)
    if int(case["seed"]) % 7 == 0 or state.get("first_case", True):
        # a coarse preview of the same history on a throwaway mineral with loose user-chosen solver options must not
        # influence the monitored run that follows with its own (default) options
        state["first_case"] = False
        try:
            H.run(H.mineral(), solver_kw={"rtol": 0.1, "atol": 0.1})
            ctx.count("loose_previews")
        except Exception:
            ctx.count("loose_preview_raised")
    m = H.mineral()
    regime = H.regime
    ctx.cls(f"regime={regime}" + (f"->{case['regime2']}" if case.get("regime2") is not None else ""))
    ctx.cls(f"regime_via={H.regime_via}")
    ctx.cls("t0=0" if case.get("t0", 0) == 0 else "t0=large" if abs(case.get("t0", 0)) >= 1e4 else "t0=small")
    ctx.cls(f"combo={case['combo']}")
    ctx.cls(f"L={case['L']['kind']}/{case['L']['mode']}")
    ctx.cls(f"tex={case['tex']}")
    ctx.cls(f"vol={case['vol']}")
    ctx.cls(f"N={case['N']}")
    ctx.cls(f"n={case['n']}")
    state["same_rate_all_grains"] = True
    state["rate_calls"] = 0

    def deriv_hook(args, kwargs, res):
        dA = np.asarray(res[0])
        state["rate_calls"] += 1
        if len(dA) > 1 and not np.all(dA == dA[0]):
            state["same_rate_all_grains"] = False

    mon.deriv_hook = deriv_hook
    # initial snapshot must be valid too
    _snapshot_oracle(ctx, case, state, m, 0, 0.0, regime, initial=True)

    def on_update(i, a, b, F):
        eps = H.strain_upto(i)
        _snapshot_oracle(ctx, case, state, m, i + 1, eps, regime)
        ctx.check("F_finite", bool(np.isfinite(F).all()), case)

    try:
        H.run(m, on_update=on_update)
        ctx.case(case, nontrivial=True)
    except Exception as e:
        ctx.case(case, nontrivial=False)
        if drive.solver_gave_up(case, e):
            ctx.count("solver_gave_up_under_user_tolerances")
        else:
            ctx.check("update_does_not_raise", False, case, key=f"raises/{type(e).__name__}",
                      exc=f"{type(e).__name__}: {str(e)[:200]}", regime=regime)
    finally:
        mon.deriv_hook = None
    if len(ctx.samples) < 3:
        ctx.sample(case, snapshots=len(m.orientations), max_orth_err=max(refmodels.orth_err(A) for A in m.orientations),
                   min_fraction=float(min(f.min() for f in m.fractions)))


def _snapshot_oracle(ctx, case, state, m, N, eps, regime, initial=False):
    A, f = m.orientations[-1], m.fractions[-1]
    bound = 5e-3 + 1e-3 * (N + 2 * eps)
    faults = refmodels.texture_faults(A, f, m.n_grains, bound)
    e = refmodels.orth_err(A) if np.shape(A) == (m.n_grains, 3, 3) else float("nan")
    if regime != 1:
        ctx.extreme("orth_err/bound", e / bound)
        ctx.extreme("orth_err", e)
    ctx.extreme("sum_f_err", abs(float(np.sum(f)) - 1))
    names = {n for n, _ in faults}
    for sub in ("shape_orientations", "shape_fractions", "finite_orientations", "finite_fractions",
                "fractions_nonneg", "fractions_sum", "entries_in_range", "orthonormal", "right_handed"):
        bad = sub in names
        key, explained = sub, None
        if bad and regime == 1 and sub in ("orthonormal", "right_handed"):
            key = "orthonormality/regime=matrix_diffusion"
            explained = state.get("same_rate_all_grains", False) and state.get("rate_calls", 0) > 0
        obs = dict(faults).get(sub)
        ctx.check("snapshot_valid" if not bad else f"snapshot_valid/{sub}", not bad, case, key=key,
                  explained=explained, observed=obs, bound=bound, N=N, strain=eps, regime=regime)


def _bulk_rejection(ctx, pydrex, case, state, H):
    """History of a two-phase aggregate through pydrex.update_all in which one call is rejected (unsupported regime
    returned by get_regime / this phase omitted from the assemblage / a raising velocity callable): whatever a call
    does, every mineral's stored history only ever grows by whole snapshots at the end (append-only, by identity and
    digest), an accepted call appends exactly one snapshot to every mineral, and every stored snapshot is valid."""
    import warnings

    core = pydrex.core
    m1 = H.mineral()
    other = [p for p in (core.MineralPhase.olivine, core.MineralPhase.enstatite) if p != H.phase][0]
    fab2 = core.MineralFabric.enstatite_AB if other == core.MineralPhase.enstatite else core.MineralFabric.olivine_A
    rng = np.random.default_rng([int(case["seed"]), 23])
    n2 = int(rng.choice([2, 7, H.n]))
    m2 = pydrex.Mineral(phase=other, fabric=fab2, regime=core.DeformationRegime(H.regime), n_grains=n2,
                        fractions_init=gen.volumes(rng, n2, "dirichlet")[1], orientations_init=gen.texture(rng, n2, "random")[1])
    minerals = [m1, m2] if case["order"] == 0 else [m2, m1]
    ctx.cls(f"bulk_rejection={case['reject']}")
    state["same_rate_all_grains"], state["rate_calls"] = False, 0

    def digest(m):
        return ([id(a) for a in m.orientations], [drive.sha(a) for a in m.orientations],
                [id(a) for a in m.fractions], [drive.sha(a) for a in m.fractions])

    F = H.F0.copy()
    accepted = 0
    with warnings.catch_warnings():
        warnings.simplefilter("ignore")
        for k, (a, b) in enumerate(zip(H.ts[:-1], H.ts[1:])):
            before = [digest(m) for m in minerals]
            params, Lfun, get_regime = H.params, H.Lfun, None
            rejected = k == case["reject_at"] and case["reject"] != "none"
            if rejected and case["reject"] == "unsupported_regime":
                get_regime = (lambda t, x: case["bad_regime"])
            elif rejected and case["reject"] == "omitted_phase":
                params = dict(H.params)
                params["phase_assemblage"], params["phase_fractions"] = (minerals[0].phase,), (1.0,)
            elif rejected:
                calls = {"n": 0}

                def Lfun(t, x, _f=H.Lfun):
                    calls["n"] += 1
                    if calls["n"] > 25:
                        raise PostBroken("injected failure in the velocity gradient callable")
                    return _f(t, x)
            try:
                F = pydrex.update_all(minerals, params, F, Lfun, (a, b, H.posfun), get_regime=get_regime)
                ok_call = True
            except Exception as e:
                ok_call = False
                if not rejected:
                    ctx.check("update_does_not_raise", False, case, key=f"raises/{type(e).__name__}",
                              exc=f"{type(e).__name__}: {str(e)[:200]}", regime=H.regime)
                    break
            for m in minerals:
                m.regime = core.DeformationRegime(H.regime)   # get_regime leaves its last answer on the mineral
            accepted += ok_call
            ctx.count("bulk_calls_accepted" if ok_call else "bulk_calls_rejected")
            for j, (m, bf) in enumerate(zip(minerals, before)):
                af = digest(m)
                nb = len(bf[0])
                grown = len(af[0]) - nb
                ok = len(af[2]) == len(af[0]) and all(x[:nb] == y for x, y in zip(af, bf))
                ok = ok and (grown == 1 if ok_call else grown in (0, 1))
                ctx.check("bulk_history_append_only", ok, case, call=k, accepted=ok_call, mineral=j, n_before=nb,
                          n_after=len(af[0]), nf_after=len(af[2]), reject=case["reject"])
    ctx.case(case, nontrivial=accepted > 0)
    for m in minerals:
        for i in range(len(m.orientations)):
            faults = refmodels.texture_faults(m.orientations[i], m.fractions[i], m.n_grains, 5e-3 + 1e-3 * (H.N + 2 * H.strain_upto(H.N - 1)))
            ctx.check("snapshot_valid" if not faults else f"snapshot_valid/{faults[0][0]}", not faults, case, key=faults[0][0] if faults else None,
                      snapshot=i, observed=[list(map(str, x)) for x in faults][:3])


def _constructor(ctx, pydrex, case):
    n, seed = case["n"], case["seed"]
    m1 = pydrex.Mineral(n_grains=n, seed=seed)
    m2 = pydrex.Mineral(n_grains=n, seed=seed)
    m3 = pydrex.Mineral(n_grains=n, seed=seed + 1)
    ctx.case(case)
    ok = np.array_equal(m1.orientations[0], m2.orientations[0]) and np.array_equal(m1.fractions[0], m2.fractions[0])
    ctx.check("constructor_reproducible", ok, case)
    ctx.check("constructor_seed_matters", not np.array_equal(m1.orientations[0], m3.orientations[0]), case)
    faults = refmodels.texture_faults(m1.orientations[0], m1.fractions[0], n, 1e-12)
    ctx.check("constructor_valid", not faults, case, faults=[list(map(str, x)) for x in faults])
    ctx.check("constructor_uniform", bool(np.all(m1.fractions[0] == 1.0 / n)), case)
    ctx.check("constructor_one_snapshot", len(m1.orientations) == 1 and len(m1.fractions) == 1, case)
    # two default minerals must not share their history lists
    ctx.check("constructor_no_shared_lists", m1.orientations is not m2.orientations and m1.fractions is not m2.fractions, case)


def _state(ctx, pydrex):
    st = ctx.extra.get("_state")
    if st is None:
        st = {}
        ctx.extra["_state"] = st
        install_contract(pydrex, ctx, st)
        mon = drive.Monitors(pydrex, ctx).install()
        st["mon"] = mon

        def extract_hook(y, n, res):
            F, A, f = res
            ok = bool(np.isfinite(f).all() and f.min() >= 0 and abs(f.sum() - 1) <= 1e-12 and np.abs(A).max() <= 1)
            ctx.check("extract_vars_on_manifold", ok, st.get("case"))
            raw = np.asarray(y)
            if np.abs(raw[9:9 + 9 * n]).max() > 1:
                ctx.count("extract_clip_orientation_active")
            if raw[9 + 9 * n:10 * n + 9].min() < 0:
                ctx.count("extract_clip_fraction_active")
            ctx.count("extract_vars_calls")

        mon.extract_hook = extract_hook
    return st


def run(ctx):
    if ctx.mode == "suite":
        from .. import suite

        return suite.run_suite_shard(ctx, "C01")
    pydrex = bootstrap.import_pydrex()
    _state(ctx, pydrex)
    for case in gen_cases(ctx):
        check_case(ctx, case)
    st = ctx.extra.pop("_state")
    ctx.count("rhs_evaluations_monitored", st["mon"].n_rhs)
    st["mon"].remove()


def finalize(merged, tier):
    reasons = []
    if merged["counters"].get("rhs_evaluations_monitored", 0) == 0:
        reasons.append("no right-hand-side evaluation was observed by the derivatives monitor")
    return reasons
