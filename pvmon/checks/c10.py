"""C10 -- Voigt average = volume-weighted mean of rotated single-crystal stiffnesses.

Reference: plain-NumPy einsum average on the 3^4 tensors built by an independent Voigt index map,
with the phase's tensor looked up *by identity*.  Relations: symmetry, K_V/G_V invariants,
co-rotation with the frame, one aligned grain, independence of phase-list and mineral-list order,
rejection of mismatched minerals.
"""
from __future__ import annotations

import numpy as np

from .. import bootstrap, drive, gen

ID = "C10"
RULE = ("case = one aggregate (1-2 phases in either order, 1-200 grains [3500 in thorough], 1-4 snapshots, built-in or random "
        "positive-definite triclinic stiffness tensors) or one rejection case; distinct = descriptor digest; non-trivial = "
        "aggregate with more than one distinct orientation or two phases")
ASSUMPTIONS = ["rounding tolerance 1e-9 * ||C||; phase fractions sum to 1 as the property requires"]
TOLERANCES = {"all": "1e-9 * max|C|"}
REQUIRED_MONITORS = ["equals_reference_average", "moduli_texture_independent", "corotates", "order_independent", "rejects_mismatch", "second_call_after_inplace_mutation"]

VMAP = {(0, 0): 0, (1, 1): 1, (2, 2): 2, (1, 2): 3, (2, 1): 3, (0, 2): 4, (2, 0): 4, (0, 1): 5, (1, 0): 5}


def to4(M):
    T = np.empty((3, 3, 3, 3))
    for (i, j), a in VMAP.items():
        for (k, l), b in VMAP.items():
            T[i, j, k, l] = M[a, b]
    return T


def to6(T):
    M = np.zeros((6, 6))
    cnt = np.zeros((6, 6))
    for (i, j), a in VMAP.items():
        for (k, l), b in VMAP.items():
            M[a, b] += T[i, j, k, l]
            cnt[a, b] += 1
    return M / cnt


def KG(C):
    d = C[0, 0] + C[1, 1] + C[2, 2]
    o = C[0, 1] + C[0, 2] + C[1, 2]
    return (d + 2 * o) / 9, (d - o + 3 * (C[3, 3] + C[4, 4] + C[5, 5])) / 15


def ref_average(snapshots, tensors4):
    """snapshots: list over minerals of (phase_fraction, tensor4, A[n,3,3], f[n]) for one time step."""
    out = np.zeros((3, 3, 3, 3))
    for phi, T, A, f in snapshots:
        R = np.swapaxes(A, 1, 2)  # A^T per grain
        out += phi * np.einsum("g,gia,gjb,gkc,gld,abcd->ijkl", f, R, R, R, R, T, optimize=True)
    return to6(out)


def plan(tier):
    if tier == "quick":
        return [{"mode": "jit", "timeout": 600}] * 4
    return [{"mode": "jit", "timeout": 3000}] * 15 + [{"mode": "bounds", "timeout": 3000}]


def gen_cases(ctx):
    for i in range(ctx.share(ctx.scale(1200, 48000))):
        rng = ctx.rng(1, i)
        big = ctx.tier == "thorough" and rng.random() < 0.01
        yield {"kind": "aggregate", "seed": int(rng.integers(1 << 31)),
               "assemblage": str(rng.choice(["ol", "en", "ol_en", "en_ol"])),
               "n": 3500 if big else int(rng.choice([1, 2, 7, 40, 200], p=[0.1, 0.15, 0.3, 0.35, 0.1])),
               "steps": int(rng.choice([1, 2, 4])), "tex": str(rng.choice(gen.TEXTURE_KINDS)),
               "vol": str(rng.choice(gen.VOLUME_KINDS)), "custom": bool(rng.random() < 0.5),
               "phi": float(rng.choice([0.7, 0.5, rng.uniform(0.01, 0.99)])),
               "origin": str(rng.choice(ORIGINS, p=[0.5, 0.15, 0.15, 0.1, 0.1]))}
    for i in range(ctx.share(ctx.scale(40, 800))):
        rng = ctx.rng(2, i)
        j = i * ctx.nshards + ctx.shard   # global index: all 12 combinations occur in every run
        yield {"kind": "reject", "seed": int(rng.integers(1 << 31)), "fault": ["n_grains", "n_snapshots", "n_fraction_lists", "n_fraction_lists_short"][j % 4],
               "where": ["second", "first", "only"][(j // 4) % 3]}
    if ctx.shard == 0:
        for combo in ("ol", "en"):
            for k in range(24):
                yield {"kind": "aligned", "assemblage": combo, "perm": k}


# where the minerals handed to voigt_averages come from: built in memory with enumeration members, restored from an
# NPZ archive through either loader (the restored phase is a NumPy integer), or built with a plain / NumPy integer phase
ORIGINS = ["built", "from_file", "load", "int_phase", "np_phase"]


def _reorigin(pydrex, m, origin, seed):
    import os
    import tempfile

    if origin == "built":
        return m
    if origin in ("int_phase", "np_phase"):
        m.phase = int(m.phase) if origin == "int_phase" else np.uint8(int(m.phase))
        return m
    with tempfile.TemporaryDirectory(prefix="pvmon-c10-") as d:
        fn = os.path.join(d, "m.npz")
        pf = None if seed % 2 else "pf"
        m.save(fn, pf) if pf else m.save(fn)
        if origin == "from_file":
            return pydrex.Mineral.from_file(fn, postfix=pf) if pf else pydrex.Mineral.from_file(fn)
        m2 = pydrex.Mineral(n_grains=m.n_grains)
        m2.load(fn, postfix=pf) if pf else m2.load(fn)
        return m2


def _spd6(rng):
    X = rng.normal(size=(6, 6))
    C = X @ X.T + 6 * np.eye(6)
    return 50 * C


def _mineral(pydrex, phase, A_list, f_list):
    core = pydrex.core
    fab = core.MineralFabric.olivine_A if phase == core.MineralPhase.olivine else core.MineralFabric.enstatite_AB
    m = pydrex.Mineral(phase=phase, fabric=fab, regime=core.DeformationRegime.matrix_dislocation, n_grains=len(f_list[0]),
                       fractions_init=f_list[0].copy(), orientations_init=A_list[0].copy())
    for A, f in zip(A_list[1:], f_list[1:]):
        m.orientations.append(A.copy())
        m.fractions.append(f.copy())
    return m


def check_case(ctx, case):
    pydrex = bootstrap.import_pydrex()
    return {"aggregate": _aggregate, "reject": _reject, "aligned": _aligned}[case["kind"]](ctx, pydrex, case)


def _aggregate(ctx, pydrex, case):
    core, mn = pydrex.core, pydrex.minerals
    P = core.MineralPhase
    rng = np.random.default_rng([int(case["seed"]), 5])
    if case["custom"]:
        unit = [1.0, 1.0, 1e9, 1e-12][int(case["seed"]) % 4]   # GPa-like, Pa, compliance-like magnitudes (the average is linear)
        S = mn.StiffnessTensors(olivine=_spd6(rng) * unit, enstatite=_spd6(rng) * unit)
        ctx.cls(f"unit={unit:g}")
    else:
        S = mn.StiffnessTensors()
    by_phase = {P.olivine: S.olivine, P.enstatite: S.enstatite}
    phases = {"ol": [P.olivine], "en": [P.enstatite], "ol_en": [P.olivine, P.enstatite], "en_ol": [P.enstatite, P.olivine]}[case["assemblage"]]
    phi = case["phi"]
    fracs = [1.0] if len(phases) == 1 else [phi, 1 - phi]
    n, steps = case["n"], case["steps"]
    data = {}
    for ph in phases:
        data[ph] = ([gen.texture(rng, n, case["tex"])[1] for _ in range(steps)], [gen.volumes(rng, n, case["vol"])[1] for _ in range(steps)])
    origin = case.get("origin", "built")
    minerals = [_reorigin(pydrex, _mineral(pydrex, ph, *data[ph]), origin, int(case["seed"]) + k) for k, ph in enumerate(phases)]
    ctx.cls(f"minerals={origin}")
    scale = max(float(np.abs(S.olivine).max()), float(np.abs(S.enstatite).max()))
    tol = 1e-9 * scale
    # argument forms: lists (documented), tuples, integer phase codes, NumPy fraction vectors
    form = int(case["seed"]) % 4
    a_min, a_ph, a_fr = ((minerals, list(phases), list(fracs)), (tuple(minerals), tuple(phases), tuple(fracs)),
                         (minerals, [int(p_) for p_ in phases], np.array(fracs, dtype=float)),
                         (minerals, list(phases), [np.float64(x) for x in fracs]))[form]
    ctx.cls(f"argument_form={form}")
    try:
        if case["custom"]:
            C = np.asarray(mn.voigt_averages(a_min, a_ph, a_fr, S))
        else:
            # default argument: the built-in tensors, whatever custom instances earlier calls were given
            C = np.asarray(mn.voigt_averages(a_min, a_ph, a_fr))
    except Exception as e:
        ctx.case(case, nontrivial=False)
        ctx.check("returns", False, case, key=f"raises/{type(e).__name__}", exc=str(e)[:200])
        return
    nontriv = len(phases) == 2 or (n > 1 and case["tex"] != "single")
    ctx.case(case, nontrivial=nontriv)
    untouched = all(np.array_equal(m_.orientations[s_], data[ph][0][s_]) and np.array_equal(m_.fractions[s_], data[ph][1][s_])
                    for m_, ph in zip(minerals, phases) for s_ in range(steps))
    ctx.check("minerals_not_mutated", untouched, case)
    ctx.cls(f"assemblage={case['assemblage']}")
    ctx.cls("custom_tensors" if case["custom"] else "builtin_tensors")
    ctx.check("shape", C.shape == (steps, 6, 6), case, shape=list(C.shape))
    if case["seed"] % 4 == 0 and case["custom"]:
        ctx.fresh_outputs("voigt_averages", mn.voigt_averages, minerals, list(phases), list(fracs), S, case=case)
    if C.shape != (steps, 6, 6):
        return
    ctx.check("symmetric", float(np.abs(C - np.swapaxes(C, 1, 2)).max()) <= tol, case)
    T4 = {ph: to4(by_phase[ph]) for ph in phases}
    Kexp = sum(fr * KG(by_phase[ph])[0] for ph, fr in zip(phases, fracs))
    Gexp = sum(fr * KG(by_phase[ph])[1] for ph, fr in zip(phases, fracs))
    for s in range(steps):
        ref = ref_average([(fr, T4[ph], data[ph][0][s], data[ph][1][s]) for ph, fr in zip(phases, fracs)], T4)
        err = float(np.abs(C[s] - ref).max())
        ctx.extreme("err_vs_reference/scale", err / scale)
        ctx.check("equals_reference_average", err <= tol, case, step=s, err=err)
        K, G = KG(C[s])
        ctx.check("moduli_texture_independent", abs(K - Kexp) <= tol and abs(G - Gexp) <= tol, case, K=K, Kexp=Kexp, G=G, Gexp=Gexp)
    # co-rotation
    qk, Q = drive.hostile_rotation(rng)
    rot = [_mineral(pydrex, ph, [A @ Q.T for A in data[ph][0]], data[ph][1]) for ph in phases]
    Cq = np.asarray(mn.voigt_averages(rot, list(phases), list(fracs), S))
    for s in range(steps):
        exp = to6(np.einsum("ia,jb,kc,ld,abcd->ijkl", Q, Q, Q, Q, to4(C[s]), optimize=True))
        ctx.check("corotates", float(np.abs(Cq[s] - exp).max()) <= 10 * tol, case, step=s, err=float(np.abs(Cq[s] - exp).max()), Q=qk)
    # order independence: permute phase/fraction lists together; permute the minerals list
    if len(phases) == 2:
        C2 = np.asarray(mn.voigt_averages(minerals, list(reversed(phases)), list(reversed(fracs)), S))
        C3 = np.asarray(mn.voigt_averages(list(reversed(minerals)), list(phases), list(fracs), S))
        e = max(float(np.abs(C2 - C).max()), float(np.abs(C3 - C).max()))
        ctx.check("order_independent", e <= tol, case, err=e)
    else:
        # single phase listed inside a longer assemblage with zero-fraction partner must not matter either
        other = P.enstatite if phases[0] == P.olivine else P.olivine
        C2 = np.asarray(mn.voigt_averages(minerals, [other, phases[0]], [0.0, 1.0], S))
        C3 = np.asarray(mn.voigt_averages(minerals, [phases[0], other], [1.0, 0.0], S))
        e = max(float(np.abs(C2 - C).max()), float(np.abs(C3 - C).max()))
        ctx.check("order_independent", e <= tol, case, err=e, single_phase=True)
    # no hidden state tied to object identity: modify the attributes of the *same* StiffnessTensors instance
    # (the documented customisation route) and the textures of the *same* Mineral objects, call again
    S.olivine = _spd6(rng)
    S.enstatite = _spd6(rng)
    for m_, ph in zip(minerals, phases):
        newA = [gen.haar(rng, n) for _ in range(steps)]
        for s_ in range(steps):
            m_.orientations[s_] = newA[s_]
        data[ph] = (newA, data[ph][1])
    try:
        C5 = np.asarray(mn.voigt_averages(minerals, list(phases), list(fracs), S))
        T5 = {P.olivine: to4(S.olivine), P.enstatite: to4(S.enstatite)}
        sc5 = max(float(np.abs(S.olivine).max()), float(np.abs(S.enstatite).max()))
        e5 = max(float(np.abs(C5[s_] - ref_average([(fr, T5[ph], data[ph][0][s_], data[ph][1][s_]) for ph, fr in zip(phases, fracs)], T5)).max())
                 for s_ in range(steps))
        ctx.check("second_call_after_inplace_mutation", e5 <= 1e-9 * sc5, case, err=e5)
    except Exception as e:
        ctx.check("second_call_after_inplace_mutation", False, case, key=f"raises/{type(e).__name__}", exc=str(e)[:200])
    if len(ctx.samples) < 3 and nontriv:
        ctx.sample(case, K=float(KG(C[0])[0]), G=float(KG(C[0])[1]))


def _aligned(ctx, pydrex, case):
    core, mn = pydrex.core, pydrex.minerals
    P = core.MineralPhase
    S = mn.StiffnessTensors()
    ph = P.olivine if case["assemblage"] == "ol" else P.enstatite
    base = S.olivine if ph == P.olivine else S.enstatite
    A = gen.SIGNED_PERMS[case["perm"]]
    m = _mineral(pydrex, ph, [A[None].copy()], [np.ones(1)])
    C = np.asarray(mn.voigt_averages([m], [ph], [1.0], S))[0]
    ctx.case(case)
    if case["perm"] == gen_identity_index():
        ctx.check("aligned_grain_returns_single_crystal", float(np.abs(C - base).max()) <= 1e-9 * np.abs(base).max(), case)
    exp = to6(np.einsum("ia,jb,kc,ld,abcd->ijkl", A.T, A.T, A.T, A.T, to4(base)))
    ctx.check("axis_aligned_grain_exact", float(np.abs(C - exp).max()) <= 1e-9 * np.abs(base).max(), case)


def gen_identity_index():
    for i, m in enumerate(gen.SIGNED_PERMS):
        if np.array_equal(m, np.eye(3)):
            return i
    return -1


def _reject(ctx, pydrex, case):
    core, mn = pydrex.core, pydrex.minerals
    P = core.MineralPhase
    rng = np.random.default_rng([int(case["seed"]), 7])
    n = int(rng.choice([2, 5, 20]))
    steps = int(rng.choice([1, 3]))

    def mk(ph, n, steps):
        return _mineral(pydrex, ph, [gen.haar(rng, n) for _ in range(steps)], [np.full(n, 1 / n) for _ in range(steps)])

    # the inconsistent mineral is listed second, first, or is the only one (then only its own lists can disagree)
    where = case.get("where", "second")
    fault = case["fault"]
    if where == "only" and fault in ("n_grains", "n_snapshots"):
        fault = "n_fraction_lists"
    a, b = mk(P.olivine, n, steps), mk(P.enstatite, n, steps)
    if fault == "n_grains":
        b = mk(P.enstatite, n + 1, steps)
    elif fault == "n_snapshots":
        b = mk(P.enstatite, n, steps + 1)
    elif fault == "n_fraction_lists":
        b.fractions.append(np.full(n, 1 / n))
    else:
        b.orientations.append(gen.haar(rng, n))
    ctx.case(case)
    ctx.cls(f"reject={fault}/{where}")
    minerals, phases, fr = {"second": ([a, b], [P.olivine, P.enstatite], [0.6, 0.4]), "first": ([b, a], [P.olivine, P.enstatite], [0.6, 0.4]),
                            "only": ([b], [P.enstatite], [1.0])}[where]
    try:
        r = mn.voigt_averages(minerals, phases, fr)
        ctx.check("rejects_mismatch", False, case, key="rejects_mismatch/returned", got=str(np.shape(r)))
    except ValueError:
        ctx.check("rejects_mismatch", True, case)
    except Exception as e:
        ctx.check("rejects_mismatch", False, case, key="rejects_mismatch/wrong_exception", got=f"{type(e).__name__}: {str(e)[:100]}")


def run(ctx):
    bootstrap.import_pydrex()
    for case in gen_cases(ctx):
        check_case(ctx, case)
