"""C20 -- coordinate conversions and pole-figure primitives are geometrically correct.

Round-trip and independent-formula oracles on to_spherical/to_cartesian (all of R^3 minus the
origin incl. both poles and the coordinate half-planes), poles (independent einsum + axis
permutation for the six reference strings), lambert_equal_area (radius law, azimuth, poles, inverse
of an independent disk-to-sphere lifting) and point_density (finite, non-negative, grid in the closed
unit disk, equal to the clipped reference obtained from an independent loop over the same public
kernel callables, invariant under data permutation and -- axial -- per-datum sign flips).
"""
from __future__ import annotations

import numpy as np

from .. import bootstrap, gen

ID = "C20"
RULE = ("case = one batch of points (conversion / projection), one (orientation set, reference string, hkl) pole extraction, or one "
        "density estimate (data set class, kernel, grid size, sigma, weight, axial flag); distinct = descriptor digest; "
        "non-trivial = batch contains at least one point off the coordinate axes / data set with >= 2 distinct directions")
ASSUMPTIONS = ["coordinates scaled within [1e-100, 1e100] (squares must not over/underflow)",
               "density reference replicates the documented counting grid (cylinder grid lifted by the equal-area map) with its own trigonometry"]
TOLERANCES = {"conversion": "1e-12 relative", "density": "1e-9 relative to max"}
REQUIRED_MONITORS = ["spherical_roundtrip", "spherical_convention", "poles_equal_reference", "lambert_radius_azimuth",
                     "lambert_inverts_lifting", "density_equals_clipped_reference", "density_finite_nonnegative_in_disk",
                     "density_permutation_invariant", "density_axial_sign_invariant"]
REFS = ["xz", "yz", "xy", "zx", "zy", "yx"]


def plan(tier):
    if tier == "quick":
        return [{"mode": "jit", "timeout": 600}] * 5
    return [{"mode": "jit", "timeout": 3000}] * 16


def gen_cases(ctx):
    for i in range(ctx.share(ctx.scale(800, 200000))):
        rng = ctx.rng(1, i)
        yield {"kind": "spherical", "seed": int(rng.integers(1 << 31)), "scale": float(10.0 ** rng.uniform(-100, 100)) if rng.random() < 0.3 else 1.0}
    for i in range(ctx.share(ctx.scale(600, 20000))):
        rng = ctx.rng(2, i)
        yield {"kind": "poles", "seed": int(rng.integers(1 << 31)), "ref": REFS[i % 6] if rng.random() < 0.8 else REFS[i % 6].upper(),
               "n": int(rng.choice([1, 2, 50])), "tex": str(rng.choice(gen.TEXTURE_KINDS))}
    for i in range(ctx.share(ctx.scale(600, 20000))):
        rng = ctx.rng(3, i)
        yield {"kind": "lambert", "seed": int(rng.integers(1 << 31))}
    kernels = ["kamb_count", "schmidt_count", "exponential_kamb", "linear_inverse_kamb", "square_inverse_kamb"]
    for i in range(ctx.share(ctx.scale(100, 8000))):
        rng = ctx.rng(4, i)
        yield {"kind": "density", "seed": int(rng.integers(1 << 31)), "kernel": kernels[i % 5],
               "n": int(rng.choice([1, 2, 5, 20, 40, 300, 1000])), "data": str(rng.choice(["random", "cluster", "girdle", "axes", "bimodal"])),
               "grid": int(rng.choice([5, 11, 21, 31] if ctx.tier == "quick" else [5, 11, 31, 51, 101])),
               "sigma": float(rng.choice([3.0, 10.0, 20.0, rng.uniform(3, 20)])), "axial": bool(rng.random() < 0.7),
               "weight": float(rng.choice([1.0, 1.0, 0.5, 3.0, 0.01, 0.1, 0.3]))}


def check_case(ctx, case):
    pydrex = bootstrap.import_pydrex()
    return {"spherical": _spherical, "poles": _poles, "lambert": _lambert, "density": _density}[case["kind"]](ctx, pydrex, case)


def hostile_points(rng, m=40):
    P = [rng.normal(size=(m, 3))]
    P.append(np.array([[0, 0, 1], [0, 0, -1], [1, 0, 0], [-1, 0, 0], [0, 1, 0], [0, -1, 0], [-1, 0, 1], [-1, 0, -1],
                       [-2, 0, 0.5], [3, 0, -4], [0, 2, 2], [0, -2, 2], [1e-9, 0, 1], [-1e-9, 1e-12, 1], [1, 1e-300, 0],
                       [-1, -0.0, 0.0], [-1, 0.0, 0.0], [0, 0, 5], [1, 1, 1], [-1, -1, -1]], float))
    return np.vstack(P)


def _spherical(ctx, pydrex, case):
    G = pydrex.geometry
    rng = np.random.default_rng([int(case["seed"]), 5])
    pts = hostile_points(rng) * case["scale"]
    x, y, z = pts.T
    if case["seed"] % 2:
        x, y, z = ctx.buf("x", x), ctx.buf("y", y), ctx.buf("z", z)
    ctx.case(case)
    try:
        with np.errstate(all="ignore"):
            r, ph, th = (np.asarray(a) for a in G.to_spherical(x, y, z))
            xx, yy, zz = (np.asarray(a) for a in G.to_cartesian(ph, th, r))
    except Exception as e:
        ctx.check("spherical_roundtrip", False, case, key=f"raises/{type(e).__name__}", exc=str(e)[:100])
        return
    rr = np.sqrt(x * x + y * y + z * z)
    err = np.max(np.abs(np.stack([xx - x, yy - y, zz - z])), axis=0) / rr
    worst = int(np.nanargmax(np.where(np.isnan(err), np.inf, err)))
    e = float(err[worst]) if not np.isnan(err[worst]) else float("inf")
    ctx.extreme("spherical_roundtrip_relerr", e if np.isfinite(e) else 1e300)
    ctx.check("spherical_roundtrip", bool(np.all(np.isfinite(err)) and e <= 1e-12), case, err=e, point=pts[worst].tolist(),
              got=[float(xx[worst]), float(yy[worst]), float(zz[worst])])
    ok = (np.all(np.abs(r - rr) <= 1e-12 * rr) and np.all((th >= 0) & (th <= np.pi))
          and np.all(np.abs(np.cos(th) - z / rr) <= 1e-12)
          and np.all(np.abs(np.angle(np.exp(1j * (ph - np.arctan2(y, x))))) <= 1e-12))
    ctx.check("spherical_convention", bool(ok), case, theta_range=[float(np.nanmin(th)), float(np.nanmax(th))])
    # to_cartesian against the documented convention on random angles
    a, b = rng.uniform(0, 2 * np.pi, 30), rng.uniform(0, np.pi, 30)
    rad = rng.uniform(0.1, 10, 30)
    X, Y, Z = G.to_cartesian(a, b, rad)
    ok = np.allclose(X, rad * np.sin(b) * np.cos(a), atol=1e-12) and np.allclose(Y, rad * np.sin(b) * np.sin(a), atol=1e-12) and np.allclose(Z, rad * np.cos(b), atol=1e-12)
    ctx.check("to_cartesian_convention", bool(ok), case)
    X1, Y1, Z1 = G.to_cartesian(a, b)
    ctx.check("to_cartesian_default_radius_is_unit", bool(np.allclose(X1**2 + Y1**2 + Z1**2, 1.0, atol=1e-12)), case)
    # scalar, integer and list arguments are accepted and mean the same
    i0 = int(rng.integers(len(pts)))
    px, py, pz = (float(v) for v in pts[i0])
    rs, ps, ts_ = G.to_spherical(px, py, pz)
    rl, pl, tl = G.to_spherical([px, px], [py, py], [pz, pz])
    same = (abs(float(rs[0]) - float(r[i0])) <= 1e-12 * float(r[i0]) and float(ps[0]) == float(ph[i0]) and float(ts_[0]) == float(th[i0])
            and float(rl[1]) == float(rs[0]) and float(pl[1]) == float(ps[0]) and float(tl[1]) == float(ts_[0]))
    ri, pi_, ti = G.to_spherical(3, -4, 12)
    same = same and abs(float(ri[0]) - 13.0) <= 1e-12 and abs(np.cos(float(ti[0])) - 12 / 13) <= 1e-12 and abs(float(pi_[0]) - np.arctan2(-4, 3)) <= 1e-12
    xs, ys, zs = G.to_cartesian(float(ps[0]), float(ts_[0]), float(rs[0]))
    same = same and max(abs(float(xs[0]) - px), abs(float(ys[0]) - py), abs(float(zs[0]) - pz)) <= 1e-12 * float(rs[0])
    ctx.check("scalar_list_integer_arguments", bool(same), case, point=[px, py, pz])


def _poles(ctx, pydrex, case):
    G = pydrex.geometry
    rng = np.random.default_rng([int(case["seed"]), 7])
    _, A = gen.texture(rng, case["n"], case["tex"])
    hkl = rng.integers(-3, 4, size=3)
    if not hkl.any():
        hkl = np.array([1, 0, 0])
    ref = case["ref"]
    ctx.case(case, nontrivial=case["n"] > 1)
    Ain = ctx.buf("A", A) if case["seed"] % 2 else A.copy()
    xv, yv, zv = G.poles(Ain, ref_axes=ref, hkl=list(int(v) for v in hkl))
    ctx.check("poles_input_not_mutated", bool(np.array_equal(Ain, A)), case)
    d = np.einsum("nji,j->ni", A, hkl.astype(float))
    d /= np.linalg.norm(d, axis=1)[:, None]
    m = {"x": 0, "y": 1, "z": 2}
    rl = ref.lower()
    up = (set("xyz") - set(rl)).pop()
    e = max(float(np.abs(xv - d[:, m[rl[0]]]).max()), float(np.abs(yv - d[:, m[rl[1]]]).max()), float(np.abs(zv - d[:, m[up]]).max()))
    ctx.extreme("poles_err", e)
    ctx.check("poles_equal_reference", e <= 1e-12, case, err=e, hkl=hkl.tolist())
    ctx.check("poles_unit", bool(np.allclose(xv**2 + yv**2 + zv**2, 1.0, atol=1e-12)), case)
    if case["seed"] % 4 == 0:
        ctx.fresh_outputs("poles", G.poles, A.copy(), ref, list(int(v) for v in hkl), case=case)
        ctx.fresh_outputs("lambert_equal_area", G.lambert_equal_area, xv.copy(), yv.copy(), zv.copy(), case=case)
        ctx.fresh_outputs("to_spherical", G.to_spherical, xv.copy(), yv.copy(), zv.copy(), case=case)


def _lift(X, Y):
    R2 = X * X + Y * Y
    z = 1 - R2
    s = np.sqrt(np.maximum(2 - R2, 0))
    return X * s, Y * s, z


def _lambert(ctx, pydrex, case):
    G = pydrex.geometry
    rng = np.random.default_rng([int(case["seed"]), 9])
    v = rng.normal(size=(60, 3))
    v /= np.linalg.norm(v, axis=1)[:, None]
    extra = np.array([[0, 0, 1], [0, 0, -1], [1, 0, 0], [0, -1, 0], [-1, 0, 0], [0.6, 0.8, 0], [1e-9, 0, np.sqrt(1 - 1e-18)], [0, 1e-3, -np.sqrt(1 - 1e-6)]])
    v = np.vstack([v, extra])
    ctx.case(case)
    X, Y = (np.asarray(a) for a in G.lambert_equal_area(*v.T))
    Xs, Ys = G.lambert_equal_area(float(v[3, 0]), float(v[3, 1]), float(v[3, 2]))
    Xl, Yl = G.lambert_equal_area(list(v[:5, 0]), list(v[:5, 1]), list(v[:5, 2]))
    ctx.check("lambert_scalar_and_list_arguments", bool(np.allclose([Xs[0], Ys[0]], [X[3], Y[3]], atol=1e-15) and np.allclose(Xl, X[:5], atol=1e-15)
                                                         and np.allclose(Yl, Y[:5], atol=1e-15)), case)
    fin = bool(np.isfinite(X).all() and np.isfinite(Y).all())
    R2 = X**2 + Y**2
    e1 = float(np.abs(R2 - (1 - np.abs(v[:, 2]))).max())
    h = np.hypot(v[:, 0], v[:, 1])
    gen_ = h > 1e-6
    daz = np.abs(np.angle(np.exp(1j * (np.arctan2(Y[gen_], X[gen_]) - np.arctan2(v[gen_, 1], v[gen_, 0])))))
    polesok = bool(np.all(np.abs(X[[60, 61]]) + np.abs(Y[[60, 61]]) == 0))
    ctx.extreme("lambert_radius_err", e1)
    ctx.check("lambert_radius_azimuth", fin and e1 <= 1e-12 and float(daz.max()) <= 1e-9 and bool(np.all(R2 <= 1 + 1e-12)) and polesok, case,
              r2err=e1, az=float(daz.max()), poles=[float(X[60]), float(Y[60]), float(X[61]), float(Y[61])])
    # inverse of an independent lifting: disk -> upper hemisphere -> disk
    rad = np.sqrt(rng.uniform(0, 1, 50))
    az = rng.uniform(-np.pi, np.pi, 50)
    Xd, Yd = rad * np.cos(az), rad * np.sin(az)
    xs, ys, zs = _lift(Xd, Yd)
    X2, Y2 = G.lambert_equal_area(xs, ys, zs)
    X3, Y3 = G.lambert_equal_area(-xs, -ys, -zs)   # antipode: same axis, folded onto the same hemisphere, azimuth + pi
    e2 = max(float(np.abs(X2 - Xd).max()), float(np.abs(Y2 - Yd).max()))
    e3 = max(float(np.abs(X3 + Xd).max()), float(np.abs(Y3 + Yd).max()))
    ctx.check("lambert_inverts_lifting", e2 <= 1e-9 and e3 <= 1e-9, case, err=e2, err_antipode=e3)


def _data(rng, kind, n):
    if kind == "random":
        d = rng.normal(size=(n, 3))
    elif kind == "cluster":
        d = np.array([0.3, -0.5, 0.8]) + 0.15 * rng.normal(size=(n, 3))
    elif kind == "girdle":
        t = rng.uniform(0, 2 * np.pi, n)
        d = np.column_stack([np.cos(t), np.sin(t), 0.05 * rng.normal(size=n)])
    elif kind == "axes":
        d = np.eye(3)[rng.integers(3, size=n)] * rng.choice([-1.0, 1.0], size=(n, 1))
    else:
        d = np.where(rng.random((n, 1)) < 0.5, np.array([[1.0, 0, 0.2]]), np.array([[0, 1.0, -0.2]])) + 0.1 * rng.normal(size=(n, 3))
    d /= np.linalg.norm(d, axis=1)[:, None]
    return d


def ref_density(S, d, grid, kernel, axial, weight, **kw):
    rho, h = np.mgrid[-np.pi:np.pi:grid * 1j, -1:1:grid * 1j]
    lam = rho.ravel()
    phi = np.arcsin(h.ravel())
    az, col = np.pi / 2 - lam, np.pi / 2 - phi
    C = np.column_stack([np.sin(col) * np.cos(az), np.sin(col) * np.sin(az), np.cos(col)])
    fn = S.SPHERICAL_COUNTING_KERNELS[kernel]
    tot = np.empty(len(C))
    for i, c in enumerate(C):
        p = d @ c
        if axial:
            p = np.abs(p)
        dens, scale = fn(p, axial=axial, **kw)
        tot[i] = (float(np.sum(np.asarray(dens) * weight)) - 0.5) / scale
    return C, tot


def _density(ctx, pydrex, case):
    S = pydrex.stats
    rng = np.random.default_rng([int(case["seed"]), 11])
    d = _data(rng, case["data"], case["n"])
    kw = {} if case["kernel"] == "schmidt_count" else {"σ": case["sigma"]}
    args = dict(gridsteps=case["grid"], weights=case["weight"], kernel=case["kernel"], axial=case["axial"], **kw)
    ctx.cls(f"kernel={case['kernel']}")
    ctx.cls(f"data={case['data']}")
    try:
        with np.errstate(all="ignore"):
            X, Y, Z = (np.asarray(a) for a in S.point_density(*d.T, **args))
    except Exception as e:
        ctx.case(case, nontrivial=False)
        ctx.check("density_returns", False, case, key=f"density_raises/{type(e).__name__}", exc=str(e)[:150])
        return
    with np.errstate(all="ignore"):
        C, tot = ref_density(S, d, case["grid"], case["kernel"], case["axial"], case["weight"], **kw)
        mean = tot.mean()
        norm = tot / mean
    # a negative grid mean is not degenerate: dividing by it still yields a field of mean 1 before clipping
    degenerate = not np.isfinite(mean) or abs(mean) < 1e-9 * max(1e-300, float(np.abs(tot).max()))
    ctx.case(case, nontrivial=not degenerate)
    if degenerate:
        ctx.count("density_degenerate_grid_mean")
        return
    ref = np.where(norm < 0, 0.0, norm).reshape(Z.shape)
    sc = max(1.0, float(np.abs(ref).max()))
    err = float(np.abs(Z - ref).max())
    ctx.extreme("density_err/scale", err / sc)
    ctx.check("density_equals_clipped_reference", err <= 1e-9 * sc, case, err=err, scale=sc)
    if not (norm < 0).any():
        ctx.check("density_grid_mean_is_one", abs(float(Z.mean()) - 1) <= 1e-9, case, mean=float(Z.mean()))
        ctx.count("density_cases_without_clipping")
    R2 = X**2 + Y**2
    ctx.check("density_finite_nonnegative_in_disk", bool(np.isfinite(Z).all() and Z.min() >= 0 and np.isfinite(X).all() and np.isfinite(Y).all()
                                                         and R2.max() <= 1 + 1e-12), case, zmin=float(Z.min()), r2max=float(R2.max()))
    # grid points are the equal-area images of the counters
    XX, YY = pydrex.geometry.lambert_equal_area(C[:, 0], C[:, 1], C[:, 2])
    ctx.check("density_grid_is_projected_counter_grid", float(np.abs(X.ravel() - XX).max()) <= 1e-9 and float(np.abs(Y.ravel() - YY).max()) <= 1e-9, case)
    perm = rng.permutation(len(d))
    with np.errstate(all="ignore"):
        Zp = np.asarray(S.point_density(*d[perm].T, **args)[2])
    ctx.check("density_permutation_invariant", float(np.abs(Zp - Z).max()) <= 1e-9 * sc, case, err=float(np.abs(Zp - Z).max()))
    if case["axial"]:
        sg = rng.choice([-1.0, 1.0], size=(len(d), 1))
        with np.errstate(all="ignore"):
            Zs = np.asarray(S.point_density(*(d * sg).T, **args)[2])
        ctx.check("density_axial_sign_invariant", float(np.abs(Zs - Z).max()) <= 1e-9 * sc, case, err=float(np.abs(Zs - Z).max()))
    if len(ctx.samples) < 3:
        ctx.sample(case, zmax=float(Z.max()), zmean=float(Z.mean()))


def run(ctx):
    bootstrap.import_pydrex()
    for case in gen_cases(ctx):
        check_case(ctx, case)
