"""C13 -- eigenvalue-based texture and strain diagnostics are objective.

Identity and relational oracles on symmetry_pgr, bingham_average, coaxial_index and finite_strain:
ranges, P+G+R=1, mean axis = principal eigenvector of an independently built scatter matrix,
invariance under grain permutation and lattice two-folds, frame rotation (scalars unchanged, axis
co-rotates up to sign), finite strain against an independent SVD, F.Q / Q.F relations, and the
closed-form simple-shear angle.
"""
from __future__ import annotations

import numpy as np

from .. import bootstrap, drive, gen

ID = "C13"
RULE = ("case = one orientation set (1..1e4 grains; random, clustered, girdled, single, aligned, mixed) x crystal axis, or one "
        "deformation gradient (random invertible, large stretch, near rotation, simple/pure shear); distinct = descriptor "
        "digest; non-trivial = orientation set with >= 2 distinct orientations / F different from a rotation")
ASSUMPTIONS = ["frame co-rotation of the mean axis is required only when the top eigenvalue gap of the scatter matrix exceeds 1e-6 (relative)",
               "coaxial index evaluated only for scatter matrices that are not exactly isotropic (denominators non-zero), as the property states"]
TOLERANCES = {"scalars": 1e-9, "axis": 1e-7}
REQUIRED_MONITORS = ["pgr_range_and_sum", "bingham_is_principal_eigenvector", "permutation_invariant", "twofold_invariant",
                     "frame_rotation_scalars", "frame_rotation_axis", "coaxial_range", "finite_strain_equals_svd",
                     "finite_strain_prior_rotation", "finite_strain_subsequent_rotation", "simple_shear_angle"]
AX = "abc"


def plan(tier):
    if tier == "quick":
        return [{"mode": "jit", "timeout": 600}] * 4
    return [{"mode": "jit", "timeout": 3000}] * 16


def gen_cases(ctx):
    for i in range(ctx.share(ctx.scale(3000, 300000))):
        rng = ctx.rng(1, i)
        big = rng.random() < 0.01
        yield {"kind": "texture", "seed": int(rng.integers(1 << 31)), "n": 10000 if big else int(rng.choice([1, 2, 3, 10, 100, 1000])),
               "tex": str(rng.choice(gen.TEXTURE_KINDS)), "axis": AX[int(rng.integers(3))]}
    for i in range(ctx.share(ctx.scale(2000, 200000))):
        rng = ctx.rng(2, i)
        yield {"kind": "strain", "seed": int(rng.integers(1 << 31)),
               "F": str(rng.choice(["random", "large_stretch", "near_rotation", "simple_shear", "pure_shear", "general_shear"]))}


def scatter(A, row):
    v = A[:, row, :]
    return np.einsum("gi,gj->ij", v, v)


def pgr_ref(A, row):
    lam = np.sort(np.linalg.eigvalsh(scatter(A, row)))[::-1]
    N = lam.sum()
    return (lam[0] - lam[1]) / N, 2 * (lam[1] - lam[2]) / N, 3 * lam[2] / N


def check_case(ctx, case):
    pydrex = bootstrap.import_pydrex()
    if case["kind"] == "texture":
        return _texture(ctx, pydrex, case)
    return _strain(ctx, pydrex, case)


def _texture(ctx, pydrex, case):
    dg = pydrex.diagnostics
    rng = np.random.default_rng([int(case["seed"]), 5])
    n, axis = case["n"], case["axis"]
    row = AX.index(axis)
    _, A = gen.texture(rng, n, case["tex"])
    if case["seed"] % 2:
        A = ctx.buf("A", A)
    distinct = n > 1 and case["tex"] != "single"
    ctx.case(case, nontrivial=distinct)
    ctx.cls(f"tex={case['tex']}")
    P, G, R = (float(x) for x in dg.symmetry_pgr(A, axis=axis))
    t = 1e-9
    ctx.check("pgr_range_and_sum", all(-t <= x <= 1 + t for x in (P, G, R)) and abs(P + G + R - 1) <= t, case, PGR=[P, G, R])
    Pr, Gr, Rr = pgr_ref(A, row)
    ctx.check("pgr_equals_reference", max(abs(P - Pr), abs(G - Gr), abs(R - Rr)) <= 1e-9, case, PGR=[P, G, R], ref=[Pr, Gr, Rr])
    mean = np.asarray(dg.bingham_average(A, axis=axis))
    if n <= 50:
        mean_l = np.asarray(dg.bingham_average([a for a in A], axis=axis))
        ev_ = np.linalg.eigvalsh(scatter(A, row))
        ctx.check("bingham_list_input_equivalent", bool(abs(abs(float(mean_l @ mean)) - 1) <= 1e-9 or (ev_[2] - ev_[1]) < 1e-9 * max(ev_[2], 1e-300)), case)
    Sm = scatter(A, row)
    lam, vec = np.linalg.eigh(Sm)
    gap = (lam[2] - lam[1]) / max(lam[2], 1e-300)
    unit = abs(np.linalg.norm(mean) - 1) <= 1e-9
    # principal eigenvector: S v = lam_max v  (robust also for degenerate top eigenvalue)
    resid = float(np.linalg.norm(Sm @ mean - lam[2] * mean)) / max(lam[2], 1e-300)
    ctx.extreme("bingham_residual", resid)
    ctx.check("bingham_is_principal_eigenvector", unit and resid <= 1e-7, case, resid=resid, norm=float(np.linalg.norm(mean)))
    # permutation
    perm = rng.permutation(n)
    P2, G2, R2 = (float(x) for x in dg.symmetry_pgr(A[perm], axis=axis))
    m2 = np.asarray(dg.bingham_average(A[perm], axis=axis))
    okp = max(abs(P - P2), abs(G - G2), abs(R - R2)) <= 1e-9 and (gap < 1e-6 or 1 - abs(float(mean @ m2)) <= 1e-7)
    ctx.check("permutation_invariant", okp, case, d=[P - P2, G - G2, R - R2])
    # lattice two-folds on a random subset
    S = np.stack([gen.TWOFOLDS[int(k)] if fl else np.eye(3) for k, fl in zip(rng.integers(3, size=n), rng.random(n) < 0.6)])
    A3 = S @ A
    P3, G3, R3 = (float(x) for x in dg.symmetry_pgr(A3, axis=axis))
    m3 = np.asarray(dg.bingham_average(A3, axis=axis))
    ok2 = max(abs(P - P3), abs(G - G3), abs(R - R3)) <= 1e-9 and (gap < 1e-6 or 1 - abs(float(mean @ m3)) <= 1e-7)
    ctx.check("twofold_invariant", ok2, case, d=[P - P3, G - G3, R - R3])
    # frame rotation A -> A Q^T
    qk, Q = drive.hostile_rotation(rng)
    A4 = A @ Q.T
    P4, G4, R4 = (float(x) for x in dg.symmetry_pgr(A4, axis=axis))
    ctx.check("frame_rotation_scalars", max(abs(P - P4), abs(G - G4), abs(R - R4)) <= 1e-9, case, d=[P - P4, G - G4, R - R4], Q=qk)
    if gap > 1e-6:
        m4 = np.asarray(dg.bingham_average(A4, axis=axis))
        mis = 1 - abs(float((Q @ mean) @ m4))
        ctx.extreme("axis_corotation_misfit", mis)
        ctx.check("frame_rotation_axis", mis <= 1e-7 / min(1.0, gap * 1e3) , case, mis=mis, gap=float(gap), Q=qk)
    else:
        ctx.count("axis_relation_skipped_degenerate")
    # coaxial index
    for a1, a2 in (("b", "a"), ("a", "c"), ("c", "b")):
        P1, G1, _ = dg.symmetry_pgr(A, axis=a1)
        Pb, Gb, _ = dg.symmetry_pgr(A, axis=a2)
        if (G1 + P1) > 1e-9 and (Gb + Pb) > 1e-9:
            ba = float(dg.coaxial_index(A, a1, a2))
            ctx.check("coaxial_range", -1e-9 <= ba <= 1 + 1e-9, case, ba=ba)
            ba_ref = 0.5 * (2 - P1 / (G1 + P1) - Gb / (Gb + Pb))
            ba4 = float(dg.coaxial_index(A4, a1, a2))
            ba2 = float(dg.coaxial_index(A[perm], a1, a2))
            ba3 = float(dg.coaxial_index(A3, a1, a2))
            cond = min(G1 + P1, Gb + Pb)
            tolb = 1e-9 / cond
            ctx.check("coaxial_objective", max(abs(ba - ba4), abs(ba - ba2), abs(ba - ba3), abs(ba - ba_ref)) <= tolb, case,
                      ba=ba, rot=ba4, perm=ba2, sym=ba3)
        else:
            ctx.count("coaxial_skipped_isotropic_scatter")
    if len(ctx.samples) < 2 and distinct:
        ctx.sample(case, PGR=[P, G, R], mean_axis=mean.round(6).tolist())


def _strain(ctx, pydrex, case):
    dg, U = pydrex.diagnostics, pydrex.utils
    rng = np.random.default_rng([int(case["seed"]), 7])
    k = case["F"]
    gam = None
    if k == "random":
        F = np.eye(3) + rng.normal(size=(3, 3)) * rng.choice([0.1, 0.5, 1.5])
    elif k == "large_stretch":
        F = gen.haar(rng) @ np.diag([10.0 ** rng.uniform(0, 4), 1.0, 10.0 ** rng.uniform(-4, 0)]) @ gen.haar(rng).T
    elif k == "near_rotation":
        F = gen.haar(rng) @ (np.eye(3) + 1e-6 * rng.normal(size=(3, 3)))
    elif k == "simple_shear":
        gam = float(rng.choice([0.1, 1.0, 2.0, 5.0, 10 ** rng.uniform(-3, 2)]))
        F = np.eye(3)
        F[1, 0] = gam
    elif k == "pure_shear":
        s = float(np.exp(rng.uniform(0.01, 3)))
        F = np.diag(rng.permutation([s, 1.0, 1 / s]))
    else:
        L = gen.velgrad(rng, None, unit=True)[1]
        from scipy.linalg import expm
        F = expm(L * rng.uniform(0.1, 3))
    if np.linalg.det(F) < 0:
        F[0] *= -1
    if case["seed"] % 2:
        F = ctx.buf("F", F)
    ctx.case(case, nontrivial=True)
    ctx.cls(f"F={k}")
    s, v = dg.finite_strain(F)
    s, v = float(s), np.asarray(v)
    Uu, sv, Vt = np.linalg.svd(F)
    gapF = (sv[0] - sv[1]) / sv[0]
    ctx.check("finite_strain_equals_svd", abs(s - (sv[0] - 1)) <= 1e-9 * sv[0] and abs(np.linalg.norm(v) - 1) <= 1e-9
              and (gapF < 1e-6 or 1 - abs(float(v @ Uu[:, 0])) <= 1e-7 / min(1.0, gapF * 1e3)), case, s=s, smax=float(sv[0]))
    Q = drive.hostile_rotation(rng)[1]
    s2, v2 = dg.finite_strain(F @ Q)
    s3, v3 = dg.finite_strain(Q @ F)
    tola = 1e-7 / min(1.0, max(gapF, 1e-12) * 1e3)
    if gapF > 1e-6:
        ctx.check("finite_strain_prior_rotation", abs(float(s2) - s) <= 1e-9 * sv[0] and 1 - abs(float(np.asarray(v2) @ v)) <= tola, case,
                  ds=float(s2) - s, mis=1 - abs(float(np.asarray(v2) @ v)))
        ctx.check("finite_strain_subsequent_rotation", abs(float(s3) - s) <= 1e-9 * sv[0] and 1 - abs(float(np.asarray(v3) @ (Q @ v))) <= tola, case,
                  ds=float(s3) - s, mis=1 - abs(float(np.asarray(v3) @ (Q @ v))))
    else:
        ctx.check("finite_strain_prior_rotation", abs(float(s2) - s) <= 1e-9 * sv[0], case)
        ctx.check("finite_strain_subsequent_rotation", abs(float(s3) - s) <= 1e-9 * sv[0], case)
    if gam is not None:
        ang = np.rad2deg(np.arctan2(v[1], v[0])) % 180
        helper = float(U.angle_fse_simpleshear(gam / 2))
        ctx.extreme("simple_shear_angle_err_deg", abs(ang - helper))
        ctx.check("simple_shear_angle", abs(ang - helper) <= 1e-6 * max(1.0, 1 / gam), case, angle=float(ang), helper=helper, gamma=gam)
    if len(ctx.samples) < 4:
        ctx.sample(case, stretch_minus_one=s, axis=v.round(6).tolist())


def run(ctx):
    bootstrap.import_pydrex()
    for case in gen_cases(ctx):
        check_case(ctx, case)
