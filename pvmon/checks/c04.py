"""C04 -- frame indifference and crystal-symmetry invariance (paired executions).

Rate level: derivatives(QLQ^T, A Q^T) vs derivatives(L, A): dA' = dA Q^T, df' = df (rounding).
derivatives(L, S_g A_g) for lattice two-folds S_g on any subset of grains: dA'_g = S_g dA_g, df' = df.
Integrated level: two Minerals driven through related update histories; every stored snapshot and
the returned F compared with the accumulated ODE tolerance 5e-3 + 1e-3*(N + 2*strain).
"""
from __future__ import annotations

import numpy as np

from .. import bootstrap, drive, gen

ID = "C04"
RULE = ("case = one paired execution (frame rotation or two-fold relabelling) at rate level (two derivatives calls) or "
        "integrated level (two Minerals through the same update history); distinct = descriptor digest; non-trivial = "
        "Q (or the set of relabelled grains) is not the identity and the base rates/texture change are non-zero")
ASSUMPTIONS = [
    "integrated textures compared within 5e-3 + 1e-3*(N + 2*strain) (LSODA error control is component-wise, not frame-invariant)",
    "integrated pairs use generic textures (axis-aligned grains with exactly vanishing slip invariants make the model singular; they are covered by C03's totality oracle and by the rate-level relation on resolved grains)",
    "a GBS mask flip of a grain whose pre-floor volume is within 1% + 3e-4 of chi/n in both runs ends the comparison of that history (counted)",
]
TOLERANCES = {"rate": "1e-9*(1+|x|)", "integrated": "5e-3 + 1e-3*(N + 2*strain)"}
REQUIRED_MONITORS = ["rate:frame_rotation", "rate:twofold", "int-rot:textures_related", "int-2fold:textures_related"]


def plan(tier):
    if tier == "quick":
        return [{"mode": "jit", "timeout": 900}] * 6
    return [{"mode": "jit", "timeout": 3400}] * 16


def gen_cases(ctx):
    for i in range(ctx.share(ctx.scale(3000, 300000))):
        rng = ctx.rng(1, i)
        pe, ne = gen.exponents(rng)
        yield {"kind": "rate", "seed": int(rng.integers(1 << 31)), "combo": int(rng.integers(6)),
               "regime": int(rng.choice([4, 6])), "n": int(rng.choice([1, 3, 20, 100])),
               "tex": str(rng.choice(gen.TEXTURE_KINDS)), "vol": str(rng.choice(gen.VOLUME_KINDS)),
               "Lkind": str(rng.choice(gen.L_KINDS)), "p": pe, "nexp": ne,
               "lam": float(rng.uniform(0, 10)), "M": float(rng.uniform(0, 200)), "phi": float(rng.uniform(0.1, 1))}
    for i in range(ctx.share(ctx.scale(60, 2400))):
        rng = ctx.rng(2, i)
        c = drive.random_history_case(rng)
        c["kind"] = "integrated"
        c["rel"] = "rot" if i % 2 == 0 else "2fold"
        c["n"] = int(rng.choice([2, 10, 30, 60]))
        c["N"] = int(rng.choice([1, 4, 10, 40], p=[0.3, 0.4, 0.25, 0.05]))
        if rng.random() < 0.5:
            c["params"]["gbs_threshold"] = 0.0
        c["F0"] = str(rng.choice(["I", "random"]))
        # integrated pairs use generic textures: at exactly axis-aligned grains (all slip invariants exactly
        # zero) the model is singular -- the rotated copy carries 1e-17 rounding noise in the invariants and
        # the scale-free slip ratios amplify it to O(1) -- so such grains are ill-conditioned (see C03)
        c["tex"] = str(rng.choice(["random", "cluster_tight", "cluster", "cluster_wide", "girdle", "single"]))
        # likewise a rigid rotation (strain rate exactly zero) makes *every* grain unresolved: in the rotated
        # frame the strain rate is 1e-17 rounding noise, the code is discontinuous there -> ill-conditioned
        spinfree = [k for k in gen.L_KINDS if k != "pure_spin"]
        if c["L"]["kind"] == "pure_spin":
            c["L"]["kind"] = str(rng.choice(spinfree))
        if rng.random() < 0.5:
            # coordinate-aligned flows (many exactly-zero tensor entries) of non-unit amplitude are where frame-dependent
            # shortcuts ("already diagonal", "only the xz entry matters") hide; the rotated copy is fully generic
            c["L"]["kind"] = str(rng.choice(["simple_shear", "simple_shear", "pure_shear", "axisym_comp", "axisym_ext"]))
            c["L"]["mode"] = str(rng.choice(["const", "multirate"]))
            c["L"]["k"] = float(rng.choice([0.5, 3.0, 1e-3, 1e2]))
            if c["L"]["mode"] == "multirate":
                c["L"]["rho"] = float(rng.choice([1e-1, 1e-2]))
            if c["params"]["gbm_mobility"] == 0:
                c["params"]["gbm_mobility"] = 125.0
        c["L"]["kind2"] = str(rng.choice(spinfree))
        yield c


def check_case(ctx, case):
    pydrex = bootstrap.import_pydrex()
    if case["kind"] == "rate":
        return _rate(ctx, pydrex, case)
    return _integrated(ctx, pydrex, case)


def _call(pydrex, case, A, f, L):
    core = pydrex.core
    phase, fabric = gen.combos(pydrex)[case["combo"]]
    r = core.derivatives(
        regime=core.DeformationRegime(case["regime"]), phase=phase, fabric=fabric, n_grains=len(A),
        orientations=A.copy(), fractions=f.copy(), strain_rate=(L + L.T) / 2, velocity_gradient=L.copy(),
        deformation_gradient_spin=np.zeros((3, 3)), stress_exponent=case["p"], deformation_exponent=case["nexp"],
        nucleation_efficiency=case["lam"], gbm_mobility=case["M"], volume_fraction=case["phi"])
    return np.asarray(r[0]), np.asarray(r[1])


def _rate(ctx, pydrex, case):
    rng = np.random.default_rng([int(case["seed"]), 5])
    _, A = gen.texture(rng, case["n"], case["tex"])
    _, f = gen.volumes(rng, case["n"], case["vol"])
    _, L = gen.velgrad(rng, case["Lkind"], unit=True)
    qk, Q = drive.hostile_rotation(rng)
    dA, df = _call(pydrex, case, A, f, L)
    nontriv = bool(np.any(dA != 0)) and qk != "identity"
    ctx.case(case, nontrivial=nontriv)
    ctx.cls(f"Q={qk}")
    ctx.cls(f"combo={case['combo']}/regime={case['regime']}")
    # aligned textures with exact zero invariants: a generic rotation destroys the exact zeros and the
    # model itself is discontinuous there (no slip <-> tiny slip is scale free); restrict the rotation
    # relation to grains whose activities are resolved
    from .. import refmodels
    phase, fabric = gen.combos(pydrex)[case["combo"]]
    _, _, info = refmodels.drex_rates(int(phase), int(fabric), A, f, L, case["p"], case["nexp"], case["lam"], case["M"], case["phi"])
    # the rotated inputs carry ~1e-16 absolute rounding noise on the slip invariants and the model is
    # scale free in them, so the relation is well conditioned only where the largest activity is well
    # above that noise (relative noise 1e-16/amax, amplified by the exponent n <= 5)
    cond = ~(info["unresolved"] | info["tie"]) & (info["amax"] >= 1e-5)
    dA2, df2 = _call(pydrex, case, A @ Q.T, f, Q @ L @ Q.T)
    sA = 1 + float(np.abs(dA).max())
    sf = 1 + float(np.abs(df).max())
    if cond.all():
        eA = float(np.abs(dA2 - dA @ Q.T).max()) / sA
        ef = float(np.abs(df2 - df).max()) / sf
        ctx.extreme("rate:rot_dA", eA)
        ctx.extreme("rate:rot_df", ef)
        ctx.check("rate:frame_rotation", eA <= 1e-9 and ef <= 1e-9, case, err_A=eA, err_f=ef, Q=qk)
    elif cond.any():
        eA = float(np.abs(dA2[cond] - (dA @ Q.T)[cond]).max()) / sA
        ctx.check("rate:frame_rotation", eA <= 1e-9, case, err_A=eA, Q=qk, partial=True)
        ctx.count("rate:cases_with_unresolved_grains")
    # lattice two-folds on a random subset (exact symmetry of the model, also for unresolved grains)
    S = np.stack([gen.TWOFOLDS[int(k)] if flip else np.eye(3)
                  for k, flip in zip(rng.integers(3, size=case["n"]), rng.random(case["n"]) < 0.6)])
    dA3, df3 = _call(pydrex, case, S @ A, f, L)
    eA = float(np.abs(dA3 - S @ dA).max()) / sA
    ef = float(np.abs(df3 - df).max()) / sf
    ctx.extreme("rate:2fold_dA", eA)
    ctx.extreme("rate:2fold_df", ef)
    ctx.check("rate:twofold", eA <= 1e-9 and ef <= 1e-9, case, err_A=eA, err_f=ef)
    if len(ctx.samples) < 2 and nontriv:
        ctx.sample(case, Q=qk, max_abs_dA=float(np.abs(dA).max()))


def _integrated(ctx, pydrex, case):
    st = ctx.extra.setdefault("_mon", None)
    if st is None:
        st = drive.Monitors(pydrex, ctx).install()
        ctx.extra["_mon"] = st
    mon = st
    mon.case = case
    H = drive.History(pydrex, case)
    rng = np.random.default_rng([int(case["seed"]), 21])
    N = H.N
    eps = [H.strain_upto(k) for k in range(N)]

    def tol_of(k):
        return 5e-3 + 1e-3 * (k + 2 * eps[k - 1])

    m1 = H.mineral()
    if case["rel"] == "rot":
        qk, Q = drive.hostile_rotation(rng)
        ctx.cls(f"int-Q={qk}")
        m2 = H.mineral(A0=H.A0 @ Q.T)
        Lf, pf = H.Lfun, H.posfun
        pr = drive.PairRun(ctx, pydrex, mon, case, H, "int-rot")
        ok = pr.compare(m1, m2, {}, {"Lfun": (lambda t, x: Q @ Lf(t, x) @ Q.T), "F0": Q @ H.F0 @ Q.T},
                        mapA=lambda A: A @ Q.T, mapF=lambda F: Q @ F @ Q.T, tol_of=tol_of,
                        fresh=lambda: (H.mineral(), H.mineral(A0=H.A0 @ Q.T)))
        nontriv = qk != "identity"
    else:
        S = np.stack([gen.TWOFOLDS[int(k)] if flip else np.eye(3)
                      for k, flip in zip(rng.integers(3, size=H.n), rng.random(H.n) < 0.6)])
        m2 = H.mineral(A0=S @ H.A0)
        pr = drive.PairRun(ctx, pydrex, mon, case, H, "int-2fold")
        ok = pr.compare(m1, m2, {}, {}, mapA=lambda A: S @ A, mapF=lambda F: F, tol_of=tol_of, exact=True)
        nontriv = bool(np.any(S != np.eye(3)))
    moved = float(np.abs(m1.orientations[-1] - m1.orientations[0]).max()) if len(m1.orientations) > 1 else 0.0
    ctx.case(case, nontrivial=bool(ok and nontriv and moved > 1e-6))
    if len(ctx.samples) < 4:
        ctx.sample(case, texture_change=moved)


def run(ctx):
    bootstrap.import_pydrex()
    for case in gen_cases(ctx):
        check_case(ctx, case)
    mon = ctx.extra.pop("_mon", None)
    if mon is not None:
        ctx.count("rhs_evaluations_monitored", mon.n_rhs)
        mon.remove()


def finalize(merged, tier):
    r = []
    c = merged["counters"]
    flips = c.get("int-rot:legit_threshold_flip_histories", 0)
    tot = merged["monitors"].get("int-rot:deformation_gradient_related", 0) + flips
    if tot and flips > 0.2 * tot:
        r.append(f"{flips}/{tot} rotated histories ended early on a GBS threshold flip (>20%)")
    return r
