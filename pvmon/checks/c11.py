"""C11 -- elastic tensor representations are mutually consistent, norm-preserving maps.

Algebraic identity oracles on every public function of pydrex.tensors over hostile inputs; the
Voigt index maps are checked exhaustively over all 81 (p,q,r,s) and 36 (i,j) tuples by one-hot
inputs; the four symmetry projectors are materialised as 21x21 matrices (exhaustive) and checked
for idempotence, symmetry, rank and nesting.
"""
from __future__ import annotations

import numpy as np

from .. import bootstrap, drive, gen
from .c10 import VMAP, to4

ID = "C11"
RULE = ("case = one random input (symmetric 6x6 with full triclinic content, 21-vector, rotation pair, real 3x3 matrix of a "
        "hostile class) on which all identities are evaluated, plus the exhaustive index-map and projector cases; distinct = "
        "descriptor digest; non-trivial = input is not the zero tensor/matrix")
ASSUMPTIONS = ["rounding tolerance 1e-9 relative to the input norm; polar decomposition checked for cond up to 1e14 and singular inputs"]
TOLERANCES = {"identities": "1e-9 * norm (purely relative: every map is homogeneous)"}
EXHAUSTIVE = False
REQUIRED_MONITORS = ["voigt4_symmetries", "voigt_roundtrip", "vector_roundtrip", "vector_isometry", "contractions",
                     "rotate_law", "rotate_group_action", "polar_left", "polar_right", "invariants", "projector_algebra",
                     "index_map_exhaustive"]

MAT_KINDS = ("generic", "symmetric", "orthogonal", "reflection", "rank2", "rank1", "zero", "illcond", "simple_shear_LF", "scaled")


def plan(tier):
    if tier == "quick":
        return [{"mode": "jit", "timeout": 600}] * 3 + [{"mode": "bounds", "timeout": 600}]
    return [{"mode": "jit", "timeout": 3000}] * 13 + [{"mode": "bounds", "timeout": 3000}] * 2 + [{"mode": "interp", "timeout": 3000}]


def gen_cases(ctx):
    n = ctx.share(ctx.scale(4000, 1200000))
    if ctx.mode == "interp":
        n = 300
    for i in range(n):
        rng = ctx.rng(1, i)
        # magnitudes: GPa-like numbers mostly, but the maps are linear, so Pa (1e11), compliances in 1/Pa (1e-12) and
        # anything in between must behave identically (all tolerances below are relative to the norm)
        yield {"kind": "random", "seed": int(rng.integers(1 << 31)), "scale": float(10.0 ** (rng.uniform(-3, 3) if i % 5 else rng.uniform(-14, 14))),
               "mat": str(rng.choice(MAT_KINDS))}
    if ctx.shard == 0 or ctx.mode != "jit":
        yield {"kind": "index_maps"}
        yield {"kind": "projectors"}


def matrix3(rng, kind):
    M = rng.normal(size=(3, 3))
    if kind == "generic":
        return M
    if kind == "symmetric":
        return M + M.T
    if kind == "orthogonal":
        return gen.haar(rng)
    if kind == "reflection":
        return np.diag([1.0, 1.0, -1.0]) @ gen.haar(rng) @ np.diag(rng.uniform(0.5, 2, 3))
    if kind == "rank2":
        U, s, Vt = np.linalg.svd(M)
        return U @ np.diag([s[0], s[1], 0.0]) @ Vt
    if kind == "rank1":
        return np.outer(rng.normal(size=3), rng.normal(size=3))
    if kind == "zero":
        return np.zeros((3, 3))
    if kind == "illcond":
        U, V = gen.haar(rng), gen.haar(rng)
        return U @ np.diag([1.0, 10.0 ** rng.uniform(-10, -4), 10.0 ** rng.uniform(-14, -10)]) @ V.T
    if kind == "simple_shear_LF":
        L = np.zeros((3, 3))
        L[int(rng.integers(3)), (int(rng.integers(1, 3)) + 0) % 3] = 2.0
        F = np.eye(3) + rng.uniform(0, 3) * L / 2
        return L @ F
    if kind == "scaled":
        return M * 10.0 ** rng.uniform(-8, 8)
    raise ValueError(kind)


def check_case(ctx, case):
    pydrex = bootstrap.import_pydrex()
    T = pydrex.tensors
    if case["kind"] == "index_maps":
        return _index_maps(ctx, T, case)
    if case["kind"] == "projectors":
        return _projectors(ctx, T, case)
    rng = np.random.default_rng([int(case["seed"]), 5])
    sc = case["scale"]
    C = rng.normal(size=(6, 6))
    C = (C + C.T) * sc
    if case["seed"] % 2:
        C = ctx.buf("C6", C)
    ctx.case(case, nontrivial=True)
    nrm = float(np.linalg.norm(C))
    tol = 1e-9 * nrm
    ctx.cls("magnitude<1e-6" if sc < 1e-6 else "magnitude>1e6" if sc > 1e6 else "magnitude~1")
    t = np.asarray(T.voigt_to_elastic_tensor(C))
    e = max(float(np.abs(t - t.transpose(1, 0, 2, 3)).max()), float(np.abs(t - t.transpose(0, 1, 3, 2)).max()),
            float(np.abs(t - t.transpose(2, 3, 0, 1)).max()))
    ctx.check("voigt4_symmetries", e <= tol, case, err=e)
    ctx.check("voigt4_equals_independent_map", float(np.abs(t - to4(C)).max()) <= tol, case)
    back = np.asarray(T.elastic_tensor_to_voigt(t))
    ctx.check("voigt_roundtrip", float(np.abs(back - C).max()) <= tol, case, err=float(np.abs(back - C).max()))
    d, dv = T.voigt_decompose(C)
    e = max(float(np.abs(np.asarray(d) - np.einsum("ijkk->ij", t)).max()), float(np.abs(np.asarray(dv) - np.einsum("ijkj->ik", t)).max()))
    ctx.check("contractions", e <= 10 * tol, case, err=e)
    v = np.asarray(T.voigt_matrix_to_vector(C))
    ctx.check("vector_roundtrip", float(np.abs(np.asarray(T.voigt_vector_to_matrix(v)) - C).max()) <= tol, case)
    x = rng.normal(size=21) * sc
    Mx = np.asarray(T.voigt_vector_to_matrix(x))
    e = float(np.abs(np.asarray(T.voigt_matrix_to_vector(Mx)) - x).max())
    ctx.check("vector_roundtrip_converse", e <= 1e-9 * np.linalg.norm(x) and float(np.abs(Mx - Mx.T).max()) == 0, case, err=e)
    e = abs(float(np.linalg.norm(v)) - float(np.linalg.norm(t)))
    ctx.extreme("isometry_err/norm", e / nrm)
    ctx.check("vector_isometry", e <= tol, case, err=e)
    # rotation
    _, R1 = drive.hostile_rotation(rng)
    _, R2 = drive.hostile_rotation(rng)
    r = np.asarray(T.rotate(t, R1))
    law = np.einsum("ia,jb,kc,ld,abcd->ijkl", R1, R1, R1, R1, t, optimize=True)
    e = float(np.abs(r - law).max())
    ctx.extreme("rotate_law_err/norm", e / nrm)
    ctx.check("rotate_law", e <= 10 * tol, case, err=e)
    ctx.check("rotate_preserves_norm", abs(float(np.linalg.norm(r)) - float(np.linalg.norm(t))) <= 10 * tol, case)
    e = float(np.abs(np.asarray(T.rotate(r, R2)) - np.asarray(T.rotate(t, R2 @ R1))).max())
    e2 = float(np.abs(np.asarray(T.rotate(t, np.eye(3))) - t).max())
    ctx.check("rotate_group_action", e <= 20 * tol and e2 <= tol, case, err=e, err_identity=e2)
    # a non-symmetric tensor must also obey the transformation law (catches transposed index use)
    g = rng.normal(size=(3, 3, 3, 3))
    Qn = gen.haar(rng)
    e = float(np.abs(np.asarray(T.rotate(g, Qn)) - np.einsum("ia,jb,kc,ld,abcd->ijkl", Qn, Qn, Qn, Qn, g, optimize=True)).max())
    ctx.check("rotate_law_general_tensor", e <= 1e-9 * (1 + np.linalg.norm(g)), case, err=e)
    # the same numbers supplied as integers / float32 (published stiffness tables are often typed in without decimals)
    if case["seed"] % 5 == 0:
        Ci = np.round(C / max(sc, 1e-300) * 50).astype(np.int64)
        Ci = (Ci + Ci.T)
        Cf = Ci.astype(np.float64)
        _, Rg = "haar", gen.haar(rng)
        for lab, Cin in (("int64", Ci), ("float32", Cf.astype(np.float32))):
            tolr = 1e-9 if lab == "int64" else 1e-5
            nref = float(np.linalg.norm(Cf)) + 1
            try:
                ti = np.asarray(T.voigt_to_elastic_tensor(Cin), dtype=float)
                tf = np.asarray(T.voigt_to_elastic_tensor(Cf), dtype=float)
                ri = np.asarray(T.rotate(T.voigt_to_elastic_tensor(Cin), Rg), dtype=float)
                rf = np.einsum("ia,jb,kc,ld,abcd->ijkl", Rg, Rg, Rg, Rg, tf, optimize=True)
                vi = np.asarray(T.voigt_matrix_to_vector(Cin), dtype=float)
                vf = np.asarray(T.voigt_matrix_to_vector(Cf), dtype=float)
                bi = np.asarray(T.elastic_tensor_to_voigt(T.voigt_to_elastic_tensor(Cin)), dtype=float)
                e = max(float(np.abs(ti - tf).max()), float(np.abs(ri - rf).max()), float(np.abs(vi - vf).max()), float(np.abs(bi - Cf).max()))
                ctx.extreme(f"dtype_{lab}_err/norm", e / nref)
                ctx.check("dtype_independent", e <= tolr * nref, case, dtype=lab, err=e)
            except Exception as ex:
                ctx.check("dtype_independent", False, case, key=f"dtype_raises/{lab}/{type(ex).__name__}", exc=str(ex)[:150])
    # callers may edit what they are given (unit conversions in place): results must be fresh objects
    if case["seed"] % 3 == 0:
        ctx.fresh_outputs("voigt_to_elastic_tensor", T.voigt_to_elastic_tensor, C, case=case)
        ctx.fresh_outputs("elastic_tensor_to_voigt", T.elastic_tensor_to_voigt, t, case=case)
        ctx.fresh_outputs("voigt_matrix_to_vector", T.voigt_matrix_to_vector, C, case=case)
        ctx.fresh_outputs("voigt_vector_to_matrix", T.voigt_vector_to_matrix, v, case=case)
        ctx.fresh_outputs("voigt_decompose", T.voigt_decompose, C, case=case)
        ctx.fresh_outputs("rotate", T.rotate, t, R1, case=case)
        for nm in ("mono_project", "ortho_project", "tetr_project", "hex_project"):
            ctx.fresh_outputs(nm, getattr(T, nm), v, case=case)
        ctx.check("inputs_not_mutated_by_fresh_calls", bool(np.array_equal(t, to4(C))), case)
    # polar decomposition + invariants on a hostile 3x3
    M = matrix3(rng, case["mat"])
    if case["seed"] % 2:
        M = ctx.buf("M3", M)
    ctx.cls(f"mat={case['mat']}")
    mn = float(np.linalg.norm(M))
    for left in (True, False):
        name = "polar_left" if left else "polar_right"
        try:
            Rf, S = T.polar_decompose(M, left)
            Rf, S = np.asarray(Rf), np.asarray(S)
        except Exception as ex:
            ctx.check(name, False, case, key=f"{name}/raises/{type(ex).__name__}", exc=str(ex)[:150], mat=case["mat"])
            continue
        orth = float(np.abs(Rf @ Rf.T - np.eye(3)).max())
        sym = float(np.abs(S - S.T).max())
        psd = float(np.linalg.eigvalsh((S + S.T) / 2).min())
        prod = (S @ Rf) if left else (Rf @ S)
        rec = float(np.abs(prod - M).max())
        ctx.extreme(f"{name}_orth", orth)
        tm = 1e-9 * mn + 1e-300   # relative to the magnitude of the input (the decomposition is homogeneous of degree one)
        ok = orth <= 1e-9 and sym <= tm and psd >= -tm and rec <= tm
        ctx.check(name, ok, case, orth=orth, sym=sym, psd=psd, rec=rec, mat=case["mat"])
    ev = np.linalg.eigvals(M)
    I1, I2, I3 = T.invariants_second_order(M)
    s1 = ev.sum().real
    s2 = (ev[0] * ev[1] + ev[1] * ev[2] + ev[0] * ev[2]).real
    s3 = np.prod(ev).real
    # compare through the characteristic polynomial coefficients computed exactly from M (eigvals of
    # defective/ill-conditioned matrices are themselves inaccurate)
    c1 = np.trace(M)
    c2 = 0.5 * (np.trace(M) ** 2 - np.trace(M @ M))
    c3 = np.linalg.det(M)
    # homogeneous of degree 1, 2, 3: tolerances relative to the corresponding power of the norm
    ok = abs(I1 - c1) <= 1e-9 * mn + 1e-300 and abs(I2 - c2) <= 1e-9 * mn ** 2 + 1e-300 and abs(I3 - c3) <= 1e-9 * mn ** 3 + 1e-300
    well = np.linalg.cond(M) < 1e6 if mn > 0 else False
    if well:
        ok = ok and abs(I1 - s1) <= 1e-6 * mn and abs(I2 - s2) <= 1e-6 * mn ** 2 and abs(I3 - s3) <= 1e-6 * mn ** 3
    ctx.check("invariants", bool(ok), case, I=[float(I1), float(I2), float(I3)], mat=case["mat"])
    if len(ctx.samples) < 2:
        ctx.sample(case, norm=nrm)


def _index_maps(ctx, T, case):
    ctx.case(case)
    ok = True
    n = 0
    for i in range(6):
        for j in range(6):
            E = np.zeros((6, 6))
            E[i, j] = E[j, i] = 1.0
            t = np.asarray(T.voigt_to_elastic_tensor(E))
            exp = to4(E)
            n += 1
            if not np.array_equal(t, exp):
                ok = False
                ctx.check("index_map_exhaustive", False, {"kind": "index_maps", "ij": [i, j]}, direction="6x6->3^4")
    for p in range(3):
        for q in range(3):
            for r in range(3):
                for s in range(3):
                    t = np.zeros((3, 3, 3, 3))
                    t[p, q, r, s] = 1.0
                    M = np.asarray(T.elastic_tensor_to_voigt(t))
                    a, b = VMAP[(p, q)], VMAP[(r, s)]
                    # one-hot entry lands in (a,b): averaged over the equivalent entries and symmetrised
                    cnt = (1 if a < 3 else 2) * (1 if b < 3 else 2)
                    exp = np.zeros((6, 6))
                    exp[a, b] += 1.0 / cnt
                    exp = (exp + exp.T) / 2
                    n += 1
                    if not np.allclose(M, exp, rtol=0, atol=1e-15):
                        ok = False
                        ctx.check("index_map_exhaustive", False, {"kind": "index_maps", "pqrs": [p, q, r, s]}, direction="3^4->6x6")
    if ok:
        ctx.check("index_map_exhaustive", True, case)
    ctx.count("index_tuples_checked", n)
    # 21-vector positions: each unit 21-vector maps to a symmetric matrix with the documented weight
    for k in range(21):
        e = np.zeros(21)
        e[k] = 1.0
        M = np.asarray(T.voigt_vector_to_matrix(e))
        back = np.asarray(T.voigt_matrix_to_vector(M))
        ctx.check("vector_basis_roundtrip", bool(np.allclose(back, e, rtol=0, atol=1e-15)) and abs(np.linalg.norm(to4(M)) - 1) <= 1e-12,
                  {"kind": "index_maps", "k": k})


def _projectors(ctx, T, case):
    ctx.case(case)

    def mat(f):
        return np.array([np.asarray(f(e)) for e in np.eye(21)]).T

    names = ("mono_project", "ortho_project", "tetr_project", "hex_project")
    Ps = {nm: mat(getattr(T, nm)) for nm in names}
    ranks = {"mono_project": 13, "ortho_project": 9, "tetr_project": 6, "hex_project": 5}
    for nm in names:
        P = Ps[nm]
        idem = float(np.abs(P @ P - P).max())
        sym = float(np.abs(P - P.T).max())
        rk = int(np.linalg.matrix_rank(P, tol=1e-10))
        ctx.check("projector_algebra", idem <= 1e-12 and sym <= 1e-12 and rk == ranks[nm], {"kind": "projectors", "name": nm},
                  idem=idem, sym=sym, rank=rk)
        # linearity: projector applied to a random vector equals the matrix product
        rng = np.random.default_rng(7)
        for _ in range(20):
            x = rng.normal(size=21)
            ctx.check("projector_linear", float(np.abs(np.asarray(getattr(T, nm)(x)) - P @ x).max()) <= 1e-12, {"kind": "projectors", "name": nm})
    for hi, lo in (("mono_project", "ortho_project"), ("ortho_project", "tetr_project"), ("tetr_project", "hex_project"),
                   ("mono_project", "hex_project")):
        e = max(float(np.abs(Ps[hi] @ Ps[lo] - Ps[lo]).max()), float(np.abs(Ps[lo] @ Ps[hi] - Ps[lo]).max()))
        ctx.check("projector_nesting", e <= 1e-12, {"kind": "projectors", "pair": [hi, lo]}, err=e)
    # the isotropic vector is fixed by every projector
    K, G = 100.0, 60.0
    iso = np.hstack((np.repeat(K + 4 * G / 3, 3), np.repeat(np.sqrt(2) * (K - 2 * G / 3), 3), np.repeat(2 * G, 3), np.zeros(12)))
    for nm in names:
        ctx.check("projector_fixes_isotropic", float(np.abs(Ps[nm] @ iso - iso).max()) <= 1e-10, {"kind": "projectors", "name": nm})


def run(ctx):
    bootstrap.import_pydrex()
    for case in gen_cases(ctx):
        check_case(ctx, case)
