"""C06 -- the returned deformation gradient solves dF/dt = L(t, x(t)).F.

Reference: scipy expm for constant L, DOP853 (rtol 1e-11) otherwise, with the same L(t,x) and pathline
callables.  The same (F0, L, pathline, partition) is driven through several different minerals
(phase, fabric, regime incl. null and diffusion regimes, grain count, texture, M*, chi) and through
update_all on 1- and 2-mineral lists in both orders; every returned F (after every update) is
compared with the reference, and det F with exp(int tr L).
"""
from __future__ import annotations

import warnings

import numpy as np
from scipy.linalg import expm

from .. import bootstrap, drive, gen, refmodels

ID = "C06"
RULE = ("case = one (F0, L(t,x), pathline, partition) history driven through 4 minerals + update_all variants; distinct = "
        "descriptor digest; non-trivial = |F_end - F0| > 1e-3 (the flow actually deformed the aggregate)")
ASSUMPTIONS = ["relative error measured as max|F - F_ref| / max|F_ref|, bound 5e-3 + 1e-3*(N + 2*strain) from the property",
               "reference integrator: expm (constant L) / DOP853 rtol=1e-11 atol=1e-13"]
TOLERANCES = {"F": "5e-3 + 1e-3*(N + 2*strain)", "mutual": "2x the same bound"}
REQUIRED_MONITORS = ["F_equals_reference", "detF_equals_exp_int_trL", "update_all_returns_single_phase_F"]


def plan(tier):
    if tier == "quick":
        return [{"mode": "jit", "timeout": 900}] * 6
    return [{"mode": "jit", "timeout": 3400}] * 16


def gen_cases(ctx):
    for i in range(ctx.share(ctx.scale(108, 12000))):
        rng = ctx.rng(1, i)
        c = drive.random_history_case(rng)
        c["kind"] = "F"
        c["n"] = int(rng.choice([2, 5, 20]))
        c["N"] = int(rng.choice([1, 2, 5, 20], p=[0.25, 0.35, 0.3, 0.1]))
        c["F0"] = str(rng.choice(["I", "random", "sheared", "nearsingular"]))
        c["L"]["mode"] = str(rng.choice(["const", "timedep", "posdep", "multirate", "pulsed"]))
        if c["L"]["mode"] == "multirate":
            c["L"]["rho"] = float(rng.choice([1e-2, 1e-3]))
        c["L"]["kind"] = str(rng.choice(["general_trace", "general_tracefree", "simple_shear", "rank1", "shear_plus_spin", "axisym_comp",
                                         "pure_spin", "pure_spin"]))
        c["t0"] = float(rng.choice([0.0, 0.7, -1.3, 1e4, 1e6]))
        c["regime_via"] = "static"
        c["reversed"] = bool(rng.random() < 0.25)
        yield c


def reference(H, t_a, t_b, F):
    mode = H.case["L"]["mode"]
    if mode == "const":
        return expm(H.Lfun(0.0, None) * (t_b - t_a)) @ F
    if mode == "multirate":   # piecewise constant: exact matrix exponentials per piece
        pts = [t_a] + [x for x in H.breaks if min(t_a, t_b) < x < max(t_a, t_b)] + [t_b]
        for u, v in zip(pts[:-1], pts[1:]):
            F = expm(H.Lfun(0.5 * (u + v), None) * (v - u)) @ F
        return F
    return refmodels.ref_deformation_gradient(F, H.Lfun, H.posfun, t_a, t_b, breaks=H.breaks)


def check_case(ctx, case):
    pydrex = bootstrap.import_pydrex()
    core = pydrex.core
    H = drive.History(pydrex, case)
    rng = np.random.default_rng([int(case["seed"]), 31])
    N = H.N
    # reference trajectory of F at the partition points (integrated in one go and stepwise-chained)
    Fref = [H.F0.copy()]
    for a, b in zip(H.ts[:-1], H.ts[1:]):
        Fref.append(reference(H, a, b, Fref[-1]))
    eps = [H.strain_upto(i) for i in range(N)]
    # integral of tr L for the determinant law
    trint = [0.0]
    for a, b in zip(H.ts[:-1], H.ts[1:]):
        pts = [a] + [x for x in H.breaks if min(a, b) < x < max(a, b)] + [b]
        acc = 0.0
        for u, v in zip(pts[:-1], pts[1:]):
            tt = np.linspace(u, np.nextafter(v, u) if v in H.breaks else v, 201)
            acc += float(np.trapezoid([np.trace(H.Lfun(t, H.posfun(t))) for t in tt], tt))
        trint.append(trint[-1] + acc)
    combos = gen.combos(pydrex)
    variants = []
    for j in range(4):
        ph, fb = combos[int(rng.integers(6))]
        variants.append(dict(phase=ph, fabric=fb, regime=int(rng.choice([4, 6, 0, 7, 1])), n=int(rng.choice([1, 2, 7, 30])),
                             tex=str(rng.choice(gen.TEXTURE_KINDS)), M=float(rng.choice([0.0, 50.0, 200.0])),
                             chi=float(rng.choice([0.0, 0.3, 0.9]))))
    ends = []
    moved = float(np.abs(Fref[-1] - Fref[0]).max())
    ctx.case(case, nontrivial=moved > 1e-3)
    ctx.cls(f"F0={case['F0']}")
    ctx.cls(f"L={case['L']['kind']}/{case['L']['mode']}")
    varying = case["L"]["mode"] != "const"

    def explained_by_step_control(v, upto):
        """Defect model of known finding K10: the same variant re-run with a capped solver step
        (max_step = |dt|/25, forwarded through update_orientations(**kwargs)) meets the bound, i.e. the
        discrepancy is LSODA's adaptive step control stepping over a variation of L, not wrong equations."""
        if not varying:
            return False
        r3 = np.random.default_rng([int(case["seed"]), 33, v["n"]])
        _, A0b = gen.texture(r3, v["n"], v["tex"])
        mb = pydrex.Mineral(phase=v["phase"], fabric=v["fabric"], regime=core.DeformationRegime(v["regime"]),
                            n_grains=v["n"], fractions_init=np.full(v["n"], 1.0 / v["n"]), orientations_init=A0b)
        pb = gen.params_dict(pydrex, v["phase"], gbm_mobility=v["M"], gbs_threshold=v["chi"])
        Fb = H.F0.copy()
        try:
            with warnings.catch_warnings():
                warnings.simplefilter("ignore")
                for kk, (a_, b_) in enumerate(zip(H.ts[:-1], H.ts[1:]), start=1):
                    Fb = mb.update_orientations(pb, Fb, H.Lfun, (a_, b_, H.posfun), max_step=abs(b_ - a_) / 25)
                    if kk == upto:
                        break
        except Exception:
            return False
        bnd = 5e-3 + 1e-3 * (upto + 2 * eps[upto - 1])
        ctx.count("K10_defect_model_evaluations")
        return bool(float(np.abs(Fb - Fref[upto]).max() / np.abs(Fref[upto]).max()) <= bnd)

    for v in variants:
        r2 = np.random.default_rng([int(case["seed"]), 33, v["n"]])
        _, A0 = gen.texture(r2, v["n"], v["tex"])
        m = pydrex.Mineral(phase=v["phase"], fabric=v["fabric"], regime=core.DeformationRegime(v["regime"]),
                           n_grains=v["n"], fractions_init=np.full(v["n"], 1.0 / v["n"]), orientations_init=A0)
        params = gen.params_dict(pydrex, v["phase"], gbm_mobility=v["M"], gbs_threshold=v["chi"])
        F = H.F0.copy()
        failed_once = False
        state_expl = None
        ctx.cls(f"mineral_regime={v['regime']}")
        try:
            with warnings.catch_warnings():
                warnings.simplefilter("ignore")
                for k, (a, b) in enumerate(zip(H.ts[:-1], H.ts[1:]), start=1):
                    F = m.update_orientations(params, F, H.Lfun, (a, b, H.posfun))
                    bound = 5e-3 + 1e-3 * (k + 2 * eps[k - 1])
                    rel = float(np.abs(F - Fref[k]).max() / np.abs(Fref[k]).max())
                    okF = rel <= bound
                    if okF:
                        ctx.extreme("F_relerr/bound", rel / bound)
                    key, expl = "F_equals_reference", None
                    if not okF and not failed_once:
                        failed_once = True
                        # one evaluation of the defect model per variant (on the whole history), reused for its later updates
                        state_expl = explained_by_step_control(v, N) and explained_by_step_control(v, k)
                    if not okF:
                        key, expl = "F_equals_reference/adaptive_steps_skip_variation_of_L", state_expl
                    ctx.check("F_equals_reference", okF, case, key=key, explained=expl, update=k, rel=rel, bound=bound,
                              variant={kk: (int(vv) if hasattr(vv, "name") else vv) for kk, vv in v.items()})
                    dexp = float(np.linalg.det(H.F0) * np.exp(trint[k]))
                    drel = abs(float(np.linalg.det(F)) - dexp) / abs(dexp)
                    # first-order sensitivity of det: d(det)/det = tr(F^-1 dF), so an admissible error of `bound` (relative,
                    # max-norm) in F moves det F by up to bound * max|F| * sum|F^-1| (= 3 * bound near the identity);
                    # for a nearly singular F the determinant law is only decidable to that conditioning
                    try:
                        sens = float(np.abs(Fref[k]).max() * np.abs(np.linalg.inv(Fref[k])).sum())
                    except np.linalg.LinAlgError:
                        sens = float("inf")
                    tolD = bound * max(3.0, 1.1 * sens)
                    if not tolD <= 0.5:
                        ctx.count("detF_law_skipped_illconditioned_F")
                        continue
                    okD = drel <= tolD
                    if okD:
                        ctx.extreme("detF_relerr/bound", drel / tolD)
                    ctx.check("detF_equals_exp_int_trL", okD, case, update=k, rel=drel,
                              key=("detF_equals_exp_int_trL" if okF else "F_equals_reference/adaptive_steps_skip_variation_of_L"),
                              explained=(None if okF else state_expl))
            ends.append(F)
        except Exception as e:
            ctx.check("update_completes", False, case, key=f"raises/{type(e).__name__}",
                      exc=f"{type(e).__name__}: {str(e)[:200]}", regime=v["regime"])
    # update_all: 1- and 2-mineral lists in both orders return the single-phase F
    P = core.MineralPhase
    fbA = core.MineralFabric.olivine_A
    nn = int(rng.choice([2, 9]))

    def mk(phase):
        return pydrex.Mineral(phase=phase, fabric=(fbA if phase == P.olivine else core.MineralFabric.enstatite_AB),
                              regime=core.DeformationRegime.matrix_dislocation, n_grains=nn, seed=int(case["seed"]) % 1000)

    params2 = pydrex.core.DefaultParams().as_dict()
    params2["phase_assemblage"] = (P.olivine, P.enstatite)
    params2["phase_fractions"] = (0.7, 0.3)
    for order in ("ol", "ol_en", "en_ol"):
        ms = {"ol": [mk(P.olivine)], "ol_en": [mk(P.olivine), mk(P.enstatite)], "en_ol": [mk(P.enstatite), mk(P.olivine)]}[order]
        F = H.F0.copy()
        try:
            with warnings.catch_warnings():
                warnings.simplefilter("ignore")
                for k, (a, b) in enumerate(zip(H.ts[:-1], H.ts[1:]), start=1):
                    F = pydrex.minerals.update_all(ms, params2, F, H.Lfun, (a, b, H.posfun))
            bound = 5e-3 + 1e-3 * (N + 2 * eps[N - 1])
            rel = float(np.abs(F - Fref[N]).max() / np.abs(Fref[N]).max())
            okU = rel <= bound
            if okU:
                ctx.extreme("update_all_relerr/bound", rel / bound)
            keyu, explu = "update_all_returns_single_phase_F", None
            if not okU and varying:
                # same defect model (K10), evaluated through update_all with a capped step
                keyu = "F_equals_reference/adaptive_steps_skip_variation_of_L"
                try:
                    ms2 = {"ol": [mk(P.olivine)], "ol_en": [mk(P.olivine), mk(P.enstatite)], "en_ol": [mk(P.enstatite), mk(P.olivine)]}[order]
                    Fb = H.F0.copy()
                    with warnings.catch_warnings():
                        warnings.simplefilter("ignore")
                        for (a_, b_) in zip(H.ts[:-1], H.ts[1:]):
                            Fb = pydrex.minerals.update_all(ms2, params2, Fb, H.Lfun, (a_, b_, H.posfun), max_step=abs(b_ - a_) / 25)
                    explu = bool(float(np.abs(Fb - Fref[N]).max() / np.abs(Fref[N]).max()) <= bound)
                except Exception:
                    explu = False
            ctx.check("update_all_returns_single_phase_F", okU, case, key=keyu, explained=explu, order=order, rel=rel, bound=bound)
            ctx.check("update_all_updates_every_mineral", all(len(x.orientations) == N + 1 for x in ms), case, order=order)
        except Exception as e:
            ctx.check("update_all_completes", False, case, key=f"raises/{type(e).__name__}",
                      exc=f"{type(e).__name__}: {str(e)[:200]}", order=order)
    # a mineral whose phase is not listed in the assemblage: the update is either refused (the present behaviour: the
    # solver set-up raises) or, if an F is returned, it is the same solution of dF/dt = L.F as for any other mineral
    params1 = pydrex.core.DefaultParams().as_dict()
    params1["phase_assemblage"], params1["phase_fractions"] = (P.olivine,), (1.0,)
    for route in ("alone", "last_in_update_all"):
        def drive_omitted(**kw):
            en = mk(P.enstatite)
            ms = [en] if route == "alone" else [mk(P.olivine), en]
            F_ = H.F0.copy()
            with warnings.catch_warnings():
                warnings.simplefilter("ignore")
                for (a_, b_) in zip(H.ts[:-1], H.ts[1:]):
                    kw_ = {k_: (abs(b_ - a_) / 25 if v_ == "cap" else v_) for k_, v_ in kw.items()}
                    if route == "alone":
                        F_ = en.update_orientations(params1, F_, H.Lfun, (a_, b_, H.posfun), **kw_)
                    else:
                        F_ = pydrex.minerals.update_all(ms, params1, F_, H.Lfun, (a_, b_, H.posfun), **kw_)
            return F_
        try:
            F = drive_omitted()
        except Exception:
            ctx.count("omitted_phase_update_refused")
            continue
        ctx.count("omitted_phase_update_returned_F")
        bound = 5e-3 + 1e-3 * (N + 2 * eps[N - 1])
        ok = isinstance(F, np.ndarray) and F.shape == (3, 3) and float(np.abs(F - Fref[N]).max() / np.abs(Fref[N]).max()) <= bound
        keyo, explo = "omitted_phase_F_equals_reference", None
        if not ok and varying and isinstance(F, np.ndarray) and F.shape == (3, 3):
            keyo = "F_equals_reference/adaptive_steps_skip_variation_of_L"
            try:
                Fb = drive_omitted(max_step="cap")
                explo = bool(float(np.abs(Fb - Fref[N]).max() / np.abs(Fref[N]).max()) <= bound)
            except Exception:
                explo = False
        ctx.check("omitted_phase_F_equals_reference", bool(ok), case, key=keyo, explained=explo, route=route,
                  got=(np.asarray(F).round(6).tolist() if isinstance(F, np.ndarray) else str(type(F))))
    if len(ctx.samples) < 3:
        ctx.sample(case, F_end=Fref[-1].round(6).tolist(), strain=eps[-1] if eps else 0)


def run(ctx):
    bootstrap.import_pydrex()
    for case in gen_cases(ctx):
        check_case(ctx, case)
