"""C03 -- rates conserve the texture manifold (skew spins, zero net volume change, totality).

Oracles: (1) post-condition monitor ``drive.rate_manifold_oracle`` on every direct hostile call of
core.derivatives here and -- through ``drive.Monitors`` -- on every RHS evaluation inside real LSODA
integrations (a short integration workload is part of this check; C01/C04-C09 carry the same
monitor); (2) relational checks: linearity in M* and phi, M*=0 => 0, f_i=0 => df_i=0 exactly;
(3) growth sign against the reference model's energies; (4) totality on the catalogue of degenerate
inputs.  Modes: compiled, NUMBA_BOUNDSCHECK=1, interpreted with a floating-point-exception monitor
(numpy errstate 'call') and line coverage of the guard lines.
"""
from __future__ import annotations

import os

import numpy as np

from .. import bootstrap, drive, gen, linecov, refmodels

ID = "C03"
RULE = ("case = one hostile call (or relational pair/triple of calls) of core.derivatives in a dislocation regime, "
        "a degenerate-catalogue call, or one monitored integration; distinct = distinct descriptor digest; "
        "non-trivial = output has a non-zero orientation rate or volume rate (catalogue cases: the call returned)")
ASSUMPTIONS = [
    "velocity-gradient magnitudes in [1e-16, 1e3]; n_grains <= 1e4 (quick) / 1e5 (thorough)",
    "growth-sign oracle uses the independent reference energies; grains with |Ebar-E_i| below 1e-9*(1+|E|) are skipped",
]
TOLERANCES = {"skew": "1e-9*(1+|dA_g|)", "sum_df": "1e-12 + 1e-11*sum|df|", "linearity": "1e-12 relative"}
REQUIRED_MONITORS = ["spin_skew[direct]", "volume_rates_sum_zero[direct]", "spin_skew[in-solver]",
                     "linear_in_mobility", "linear_in_phase_fraction", "zero_mobility_zero_rate", "growth_sign",
                     "catalogue_returns_finite"]
RANGES = [(533, 538), (616, 642), (717, 730), (738, 745), (431, 436), (461, 466)]


def plan(tier):
    if tier == "quick":
        return [{"mode": "jit", "timeout": 600}] * 3 + [{"mode": "bounds", "timeout": 600}, {"mode": "interp", "timeout": 600}]
    return ([{"mode": "jit", "timeout": 3000}] * 11 + [{"mode": "bounds", "timeout": 3000}] * 2 + [{"mode": "interp", "timeout": 3000}] * 2
            + [{"mode": "suite", "timeout": 3300}])


def call(pydrex, combo, regime, A, f, L, p, nexp, lam, M, phi):
    core = pydrex.core
    phase, fabric = gen.combos(pydrex)[combo]
    return core.derivatives(
        regime=core.DeformationRegime(regime), phase=phase, fabric=fabric, n_grains=len(A),
        orientations=A.copy(), fractions=f.copy(), strain_rate=(L + L.T) / 2, velocity_gradient=L.copy(),
        deformation_gradient_spin=np.zeros((3, 3)), stress_exponent=p, deformation_exponent=nexp,
        nucleation_efficiency=lam, gbm_mobility=M, volume_fraction=phi)


def gen_cases(ctx):
    n_direct = ctx.share(ctx.scale(2400, 200000))
    if ctx.mode == "interp":
        n_direct = ctx.scale(150, 2500)
    for i in range(n_direct):
        rng = ctx.rng(1, i)
        pe, ne = gen.exponents(rng)
        big = rng.random() < 0.01
        nmax = ctx.scale(10000, 100000)
        case = {
            "kind": "direct", "seed": int(rng.integers(1 << 31)), "combo": int(rng.integers(6)),
            "regime": int(rng.choice([4, 6])),
            "n": int(nmax if (big and ctx.mode != "interp") else rng.choice([1, 2, 3, 10, 50, 300])),
            "tex": str(rng.choice(gen.TEXTURE_KINDS)), "vol": str(rng.choice(gen.VOLUME_KINDS)),
            "Lkind": str(rng.choice(gen.L_KINDS)),
            "scale": float(10.0 ** rng.uniform(-16, 3)) if rng.random() < 0.4 else 1.0,
            "p": pe, "nexp": ne, "lam": float(rng.choice([0.0, 5.0, rng.uniform(0, 10), 50.0])),
            "M": float(rng.choice([0.0, 125.0, rng.uniform(0, 200), 10.0, 1.0, 3.0])), "phi": float(rng.choice([1.0, rng.uniform(0.01, 1), 0.7, 0.05])),
            "M_int": bool(rng.random() < 0.3),
            "k": float(rng.choice([0.0, 0.37, 2.0, 7.3, 1e3])),
        }
        yield case
    if ctx.shard == 0 or ctx.mode != "jit":
        yield from catalogue_cases(ctx)
    if ctx.mode == "jit":
        for i in range(ctx.share(ctx.scale(24, 800))):
            rng = ctx.rng(3, i)
            c = drive.random_history_case(rng, regime=int(rng.choice([4, 6])))
            c["kind"] = "integration"
            c["N"] = min(c["N"], 10)
            yield c


def catalogue_cases(ctx):
    """Degenerate inputs: 24 aligned orientations x 6 simple shears + 3 pure shears x 6 fabrics x 2 regimes;
    pure spin (D=0), L=0, single grain, all volume in one grain."""
    shears = []
    for i in range(3):
        for j in range(3):
            if i != j:
                L = np.zeros((3, 3))
                L[i, j] = 2.0
                shears.append((f"shear{i}{j}", L))
    for d in ([1.0, 0, -1.0], [0, 1.0, -1.0], [1.0, -1.0, 0]):
        shears.append((f"pure{d}", np.diag(d)))
    shears.append(("axisym", np.diag([-1.0, 0.5, 0.5])))
    shears.append(("spin_only", np.array([[0, 1.0, 0], [-1.0, 0, 0], [0, 0, 0]])))
    shears.append(("zero", np.zeros((3, 3))))
    for combo in range(6):
        for regime in (4, 6):
            for li, (lname, L) in enumerate(shears):
                yield {"kind": "catalogue", "combo": combo, "regime": regime, "L": lname, "Lm": L.tolist(), "orient": "all24"}
                yield {"kind": "catalogue", "combo": combo, "regime": regime, "L": lname, "Lm": L.tolist(), "orient": "single_dominant"}


def check_case(ctx, case):
    pydrex = bootstrap.import_pydrex()
    kind = case["kind"]
    if kind == "direct":
        return _direct(ctx, pydrex, case)
    if kind == "catalogue":
        return _catalogue(ctx, pydrex, case)
    if kind == "integration":
        return _integration(ctx, pydrex, case)
    raise ValueError(kind)


def _direct(ctx, pydrex, case):
    rng = np.random.default_rng([int(case["seed"]), 5])
    _, A = gen.texture(rng, case["n"], case["tex"])
    _, f = gen.volumes(rng, case["n"], case["vol"])
    _, L = gen.velgrad(rng, case["Lkind"], unit=True)
    L = L * case["scale"]
    args = (case["combo"], case["regime"], A, f, L, case["p"], case["nexp"], case["lam"])
    M, phi, k = case["M"], case["phi"], case["k"]
    if case.get("M_int"):
        M = int(M)      # DefaultParams declares gbm_mobility as an int: integer-typed mobilities are the documented default
        k = float(int(k)) if k >= 1 else k
    ctx.cls(f"combo={case['combo']}/regime={case['regime']}")
    ctx.cls(f"tex={case['tex']}")
    ctx.cls(f"vol={case['vol']}")
    ctx.cls("n>=10000" if case["n"] >= 10000 else f"n={case['n']}")
    try:
        dA, df = call(pydrex, *args, M, phi)
        dA, df = np.asarray(dA), np.asarray(df)
        ctx.check("returns_without_raising", True, case)
    except Exception as e:
        ctx.case(case, nontrivial=False)
        ctx.check("returns_without_raising", False, case, key=f"raises/{type(e).__name__}",
                  exc=f"{type(e).__name__}: {str(e)[:200]}")
        return
    ctx.case(case, nontrivial=bool(np.any(dA != 0) or np.any(df != 0)))
    ctx.check("output_shapes", dA.shape == (case["n"], 3, 3) and df.shape == (case["n"],), case)
    drive.rate_manifold_oracle(ctx, A, f, dA, df, M * phi, case, where="direct", Lnorm=float(np.abs(L).sum()))
    if not (np.isfinite(dA).all() and np.isfinite(df).all()):
        return
    # relational: linear in M*, linear in phi, zero at M*=0; orientation rates independent of both
    sc = 1e-300 + float(np.abs(df).max())
    dA2, df2 = map(np.asarray, call(pydrex, *args, (int(k * M) if case.get("M_int") and float(k * M).is_integer() else k * M), phi))
    ctx.check("linear_in_mobility", bool(np.abs(df2 - k * df).max() <= 1e-12 * max(1.0, k) * sc + 1e-300), case,
              err=float(np.abs(df2 - k * df).max()), k=k)
    kphi = min(1.0, max(1e-3, k if k else 0.5))
    dA3, df3 = map(np.asarray, call(pydrex, *args, M, phi * kphi))
    ctx.check("linear_in_phase_fraction", bool(np.abs(df3 - kphi * df).max() <= 1e-12 * sc + 1e-300), case,
              err=float(np.abs(df3 - kphi * df).max()))
    _, df0 = call(pydrex, *args, (0 if case.get("M_int") else 0.0), phi)
    ctx.check("zero_mobility_zero_rate", bool(np.all(np.asarray(df0) == 0)), case)
    ctx.check("rotation_independent_of_mobility", bool(np.array_equal(dA2, dA) and np.array_equal(dA3, dA)), case)
    # growth sign vs independent energies
    if M > 0 and case["scale"] == 1.0:
        phase, fabric = gen.combos(pydrex)[case["combo"]]
        _, _, info = refmodels.drex_rates(int(phase), int(fabric), A, f, L, case["p"], case["nexp"], case["lam"], M, phi)
        if not (info["tie"] | info["unresolved"]).any():
            E, Em = info["E"], info["Em"]
            live = (f > 0) & (np.abs(Em - E) > 1e-9 * (1 + np.abs(E)))
            if live.any():
                okg = np.sign(df[live]) == np.sign(Em - E[live])
                ctx.check("growth_sign", bool(okg.all()), case, n_wrong=int((~okg).sum()))
                ctx.count("growth_sign_grains", int(live.sum()))
    if len(ctx.samples) < 2:
        ctx.sample(case, max_abs_dA=float(np.abs(dA).max()), sum_df=float(df.sum()))


def _catalogue(ctx, pydrex, case):
    L = np.array(case["Lm"], float)
    if case["orient"] == "all24":
        A = np.stack(gen.SIGNED_PERMS)
        f = np.full(24, 1 / 24)
    else:
        A = np.stack([gen.SIGNED_PERMS[(case["combo"] * 5 + 3) % 24]] * 3)
        f = np.array([1.0, 0.0, 0.0])
    try:
        dA, df = call(pydrex, case["combo"], case["regime"], A, f, L, 1.5, 3.5, 5.0, 125.0, 1.0)
        dA, df = np.asarray(dA), np.asarray(df)
    except Exception as e:
        ctx.case(case, nontrivial=False)
        ctx.check("catalogue_returns_finite", False, case, key=f"raises/{type(e).__name__}",
                  exc=f"{type(e).__name__}: {str(e)[:200]}")
        return
    ctx.case(case, nontrivial=True)
    ctx.check("catalogue_returns_finite", bool(np.isfinite(dA).all() and np.isfinite(df).all()), case)
    drive.rate_manifold_oracle(ctx, A, f, dA, df, 125.0, case, where="direct", Lnorm=float(np.abs(L).sum()))


def _integration(ctx, pydrex, case):
    mon = drive.Monitors(pydrex, ctx)
    mon.case = case
    with mon:
        H = drive.History(pydrex, case)
        m = H.mineral()
        try:
            H.run(m)
            ctx.case(case, nontrivial=True)
        except Exception as e:
            ctx.case(case, nontrivial=False)
            if drive.solver_gave_up(case, e):
                ctx.count("solver_gave_up_under_user_tolerances")
                return
            ctx.check("integration_does_not_raise", False, case, key=f"raises/{type(e).__name__}",
                      exc=f"{type(e).__name__}: {str(e)[:200]}")
    ctx.count("rhs_evaluations_monitored", mon.n_rhs)


def run(ctx):
    if ctx.mode == "suite":
        from .. import suite

        return suite.run_suite_shard(ctx, "C03")
    pydrex = bootstrap.import_pydrex()
    cov = False
    fp = {"divide": 0, "invalid": 0, "over": 0, "under": 0}
    if ctx.mode == "interp":
        cov = linecov.start(os.path.join(bootstrap.repo_dir(), "src", "pydrex"))

        def on_fp(kind, flag):
            k = str(kind).split()[0]
            fp["divide" if k.startswith("div") else "invalid" if k.startswith("inv") else "over" if k.startswith("over") else "under"] += 1

        np.seterrcall(on_fp)
        np.seterr(all="call")
    for case in gen_cases(ctx):
        check_case(ctx, case)
    if ctx.mode == "interp":
        np.seterr(all="warn")
        for k, v in fp.items():
            ctx.count(f"fp_events_{k}", v)
    if cov:
        linecov.stop()
        ctx.extra["anchored_lines"] = linecov.report("core.py", RANGES, os.path.join(bootstrap.repo_dir(), "src", "pydrex"))


def finalize(merged, tier):
    r = []
    if merged["counters"].get("rhs_evaluations_monitored", 0) == 0:
        r.append("no in-solver RHS evaluation was monitored")
    return r
