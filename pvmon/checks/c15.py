"""C15 -- volume-weighted resampling draws grains in proportion to their volume.

icontract postcondition on pydrex.stats.resample_orientations (shapes, membership of every output
(orientation, volume) pair in the same snapshot -- decided unambiguously by giving every input grain
a unique volume and a unique orientation --, zero-volume grains never drawn); determinism per seed;
multinomial law by chi-square and per-grain 6-sigma bands with n_samples up to 1e6; every malformed
shape combination must raise ValueError.
"""
from __future__ import annotations

import numpy as np

from .. import bootstrap, gen

ID = "C15"
RULE = ("case = one resampling call on a generated stack (N snapshots x M grains, volume class incl. zeros/duplicates/dominant), "
        "one law case (large n_samples), or one malformed-shape call; distinct = descriptor digest; non-trivial = stack with "
        "M >= 2 grains and non-uniform volumes")
ASSUMPTIONS = ["statistical sub-oracles use fixed seeds and thresholds at p < 1e-12 (exact binomial tails per grain, chi-square overall)",
               "membership uses unique volumes and orientations per snapshot so that the pairing is unambiguous"]
TOLERANCES = {"law": "per-grain exact binomial tail p > 1e-12; chi2 p > 1e-12"}
REQUIRED_MONITORS = ["post:shapes", "post:membership_and_pairing", "post:zero_volume_never_drawn", "seed_reproducible",
                     "law:per_grain_band", "law:chi_square", "malformed_rejected"]


class PostBroken(Exception):
    pass


def plan(tier):
    if tier == "quick":
        return [{"mode": "jit", "timeout": 600}] * 4
    return [{"mode": "jit", "timeout": 3000}] * 16


def gen_cases(ctx):
    for i in range(ctx.share(ctx.scale(600, 20000))):
        rng = ctx.rng(1, i)
        yield {"kind": "call", "seed": int(rng.integers(1 << 31)), "N": int(rng.choice([1, 2, 5])),
               "M": int(rng.choice([1, 2, 3, 10, 100, 1000], p=[0.05, 0.1, 0.15, 0.3, 0.3, 0.1])),
               "vol": str(rng.choice(["unique_dirichlet", "unique_sharp", "zeros", "dominant", "duplicates", "uniform"])),
               "n_samples": [None, 1, 7, 1000][int(rng.integers(4))], "rs": int(rng.integers(1 << 31))}
    for i in range(ctx.share(ctx.scale(16, 400))):
        rng = ctx.rng(2, i)
        yield {"kind": "law", "seed": int(rng.integers(1 << 31)), "M": int(rng.choice([2, 3, 10, 50, 300])),
               "vol": "under_normalised" if i % 3 == 2 else str(rng.choice(["unique_dirichlet", "unique_sharp", "zeros", "zeros", "dominant"])),
               "n_samples": int(ctx.scale(200000, 1000000)), "rs": int(rng.integers(1 << 31))}
    # very many draws from stacks that contain empty grains: a zero-volume grain must *never* be drawn, also not by the one
    # uniform variate in 2**24 that a reduced-precision generator returns as exactly 0 (quick: ~2e8 draws in total)
    for i in range(ctx.share(ctx.scale(96, 3200))):
        rng = ctx.rng(3, i)
        yield {"kind": "zero_hunt", "seed": int(rng.integers(1 << 31)), "M": int(rng.choice([3, 4, 6])), "N": 2,
               "n_samples": 1000000, "rs": int(rng.integers(1 << 31))}
    if ctx.shard == 0:
        yield from malformed_cases()


def malformed_cases():
    good_o, good_f = (2, 5, 3, 3), (2, 5)
    bad = [((2, 5, 4, 4), good_f), ((2, 5, 2, 3), good_f), ((2, 5, 1, 3), good_f), ((2, 5, 1, 1), good_f), ((2, 5, 3, 1), good_f),
           ((2, 5, 3, 2), good_f), ((2, 5, 3, 4), good_f), ((2, 5, 2, 2), good_f), ((2, 5, 4, 3), good_f), ((2, 5, 1, 4), good_f),
           (good_o, (2, 4)), (good_o, (3, 5)), ((3, 5, 3, 3), good_f), ((5, 3, 3), (5,)), (good_o, (2, 5, 1)), ((2, 5, 9), good_f),
           (good_o, (10,)), ((2, 5, 3, 3, 1), good_f), ((1, 2, 5, 3, 3), good_f), (good_o, (5, 2)), ((2, 6, 3, 3), good_f)]
    for o, f in bad:
        yield {"kind": "malformed", "oshape": list(o), "fshape": list(f)}
    # ranks all the way down to zero, for either argument (a bare number for a one-grain aggregate is a natural slip)
    for o, f in [(good_o, ()), ((), good_f), ((), ()), ((3, 3), ()), ((3, 3), (1,)), ((1, 3, 3), ()), ((1, 1, 3, 3), ()), (good_o, (1,)),
                 ((5, 3, 3), (2, 5)), ((2, 5, 3, 3), (5,))]:
        yield {"kind": "malformed", "oshape": list(o), "fshape": list(f)}
    for special in ("fractions_python_float", "fractions_none", "orientations_none", "fractions_numpy_scalar"):
        yield {"kind": "malformed", "oshape": [1, 1, 3, 3], "fshape": [], "special": special}
    yield {"kind": "malformed_ok", "oshape": list(good_o), "fshape": list(good_f)}


def make_stack(rng, N, M, vol):
    O = np.stack([gen.haar(rng, M) if M > 1 else gen.haar(rng, 1) for _ in range(N)])
    F = np.empty((N, M))
    for s in range(N):
        if vol in ("unique_dirichlet", "unique_sharp"):
            f = rng.dirichlet(np.full(M, 1.0 if vol == "unique_dirichlet" else 0.1))
            f = np.maximum(f, 1e-12) + np.arange(M) * 1e-13
        elif vol == "zeros":
            f = rng.dirichlet(np.ones(M))
            z = rng.random(M) < 0.4
            if z.all():
                z[0] = False
            f[z] = 0.0
        elif vol == "dominant":
            f = np.full(M, 1e-7) * (1 + np.arange(M) * 1e-3)
            f[int(rng.integers(M))] = 1.0
        elif vol == "duplicates":
            vals = rng.dirichlet(np.ones(max(1, M // 3 + 1)))
            f = vals[rng.integers(len(vals), size=M)]
        elif vol == "under_normalised":
            f = rng.dirichlet(np.ones(M))
        else:
            f = np.ones(M)
        f = f / f.sum()
        if vol == "under_normalised":
            f = f * (1 - 5e-6)  # normalised to single precision only
        F[s] = f
    return O, F


def install_contract(pydrex, ctx, st):
    import icontract

    S = pydrex.stats
    if getattr(S.resample_orientations, "_pvmon_contract", False):
        return

    def post(orientations, fractions, result, n_samples=None, seed=None):
        O, F = np.asarray(orientations), np.asarray(fractions)
        case = st.get("case")
        oo, ff = result
        N, M = F.shape
        ns = M if n_samples is None else n_samples
        ctx.check("post:shapes", np.shape(oo) == (N, ns, 3, 3) and np.shape(ff) == (N, ns), case,
                  got=[list(np.shape(oo)), list(np.shape(ff))], expected=[[N, ns, 3, 3], [N, ns]])
        if np.shape(oo) != (N, ns, 3, 3) or np.shape(ff) != (N, ns):
            return True
        ok_mem, ok_zero = True, True
        for s in range(N):
            f = F[s]
            order = np.argsort(f, kind="stable")
            fs = f[order]
            idx = np.searchsorted(fs, ff[s], side="left")
            idx = np.clip(idx, 0, M - 1)
            if not np.array_equal(fs[idx], ff[s]):
                ok_mem = False
                break
            if st.get("unique", False):
                j = order[idx]
                if not np.array_equal(oo[s], O[s][j]):
                    ok_mem = False
                    break
            else:
                # duplicates: output orientation must be one of the grains carrying that volume
                for kk in range(min(ns, 200)):
                    cand = np.flatnonzero(f == ff[s][kk])
                    if not any(np.array_equal(oo[s][kk], O[s][c]) for c in cand):
                        ok_mem = False
                        break
            if np.any(ff[s] == 0) and np.any(f > 0):
                ok_zero = False
        ctx.check("post:membership_and_pairing", ok_mem, case)
        ctx.check("post:zero_volume_never_drawn", ok_zero, case)
        return True

    w = icontract.ensure(post, error=PostBroken)(S.resample_orientations)
    w._pvmon_contract = True
    S.resample_orientations = w


def check_case(ctx, case):
    pydrex = bootstrap.import_pydrex()
    st = ctx.extra.get("_st")
    if st is None:
        st = {}
        ctx.extra["_st"] = st
        install_contract(pydrex, ctx, st)
    S = pydrex.stats
    kind = case["kind"]
    st["case"] = case
    if kind in ("malformed", "malformed_ok"):
        rng = np.random.default_rng(3)
        O = rng.normal(size=case["oshape"])
        F = np.full(case["fshape"], 1.0 / (case["fshape"][-1] if case["fshape"] else 1))
        sp = case.get("special")
        if sp == "fractions_python_float":
            F = 1.0
        elif sp == "fractions_numpy_scalar":
            F = np.float64(1.0)
        elif sp == "fractions_none":
            F = None
        elif sp == "orientations_none":
            O, F = None, np.ones((1, 1))
        ctx.case(case)
        st["unique"] = False
        try:
            r = S.resample_orientations(O, F, seed=1)
            ok = kind == "malformed_ok"
            ctx.check("malformed_rejected" if kind == "malformed" else "wellformed_accepted", ok, case,
                      key=None if ok else "malformed_rejected/accepted", got=[list(np.shape(r[0])), list(np.shape(r[1]))])
        except ValueError as e:
            ctx.check("malformed_rejected" if kind == "malformed" else "wellformed_accepted", kind == "malformed", case, exc=str(e)[:80])
        except Exception as e:
            ctx.check("malformed_rejected", False, case, key="malformed_rejected/wrong_exception", exc=f"{type(e).__name__}: {str(e)[:100]}")
        return
    rng = np.random.default_rng([int(case["seed"]), 5])
    if kind == "call":
        N, M = case["N"], case["M"]
        O, F = make_stack(rng, N, M, case["vol"])
        if case["seed"] % 2:
            O, F = ctx.buf("O", O), ctx.buf("F", F)
        st["unique"] = case["vol"] in ("unique_dirichlet", "unique_sharp", "dominant") or (case["vol"] == "zeros")
        if case["vol"] == "zeros":
            st["unique"] = False
        ctx.case(case, nontrivial=M >= 2 and case["vol"] != "uniform")
        ctx.cls(f"vol={case['vol']}")
        try:
            r1 = S.resample_orientations(O, F, n_samples=case["n_samples"], seed=case["rs"])
            r2 = S.resample_orientations(O, F, n_samples=case["n_samples"], seed=case["rs"])
            r3 = S.resample_orientations(O, F, n_samples=case["n_samples"], seed=case["rs"] + 1)
        except Exception as e:
            ctx.check("call_returns", False, case, key=f"raises/{type(e).__name__}", exc=str(e)[:200])
            return
        ctx.check("seed_reproducible", bool(np.array_equal(r1[0], r2[0]) and np.array_equal(r1[1], r2[1])), case)
        ns = M if case["n_samples"] is None else case["n_samples"]
        if M >= 10 and ns >= 7 and case["vol"] in ("unique_dirichlet", "uniform", "duplicates"):
            ctx.check("different_seed_different_draw", not np.array_equal(r1[1], r3[1]) or not np.array_equal(r1[0], r3[0]), case)
        # lists of Rotation.as_matrix() inputs are documented as allowed
        try:
            r4 = S.resample_orientations([o for o in O], [f for f in F], n_samples=case["n_samples"], seed=case["rs"])
            ctx.check("list_inputs_equivalent", bool(np.array_equal(r1[0], r4[0]) and np.array_equal(r1[1], r4[1])), case)
        except Exception as e:
            ctx.check("list_inputs_equivalent", False, case, key=f"raises/{type(e).__name__}", exc=str(e)[:150])
        if len(ctx.samples) < 2 and M >= 3:
            ctx.sample(case, first_draw_volumes=np.asarray(r1[1])[0][:5].tolist())
        return
    if kind == "zero_hunt":
        M, ns = case["M"], case["n_samples"]
        O, F = make_stack(rng, case["N"], M, "zeros")
        if not (F == 0).any():
            F[0, 0] = 0.0
            F[0] /= F[0].sum()
        st["unique"] = False
        ctx.case(case, nontrivial=True)
        try:
            oo, ff = S.resample_orientations(O, F, n_samples=ns, seed=case["rs"])   # decided by the postcondition
        except Exception as e:
            ctx.check("call_returns", False, case, key=f"raises/{type(e).__name__}", exc=str(e)[:200])
            return
        ctx.count("zero_hunt_draws", int(np.size(ff)))
        del oo, ff
        return
    if kind == "law":
        M, ns = case["M"], case["n_samples"]
        # stacks of 1-3 snapshots: a grain may be empty in one snapshot and hold volume in another
        Ns = 1 + int(case["seed"]) % 3
        if case["vol"] == "zeros":
            Ns = 2 + int(case["seed"]) % 2   # zero pattern differs between snapshots
        O, F = make_stack(rng, Ns, M, case["vol"])
        st["unique"] = case["vol"] in ("unique_dirichlet", "unique_sharp", "dominant")
        ctx.case(case, nontrivial=True)
        try:
            oo_all, ff_all = S.resample_orientations(O, F, n_samples=ns, seed=case["rs"])
        except Exception as e:
            ctx.check("law:call_returns", False, case, key=f"raises/{type(e).__name__}", exc=str(e)[:150])
            return
        ctx.cls(f"law_snapshots={Ns}")
        for snap in range(Ns):
            _law_one(ctx, case, st, O[snap:snap + 1], F[snap:snap + 1], np.asarray(oo_all)[snap:snap + 1], np.asarray(ff_all)[snap:snap + 1], ns, M, snap)
        return


def _law_one(ctx, case, st, O, F, oo, ff, ns, M, snap):
    if True:
        f = F[0] / F[0].sum()
        # identify drawn grain by orientation (unique) -> counts
        keyO = {O[0][j].tobytes(): j for j in range(M)}
        # vectorised: match by first row element combos via volumes where unique else by orientation hash
        if st["unique"]:
            order = np.argsort(F[0], kind="stable")
            j = order[np.clip(np.searchsorted(F[0][order], ff[0]), 0, M - 1)]
        else:
            h = {O[0][jj][0, 0]: jj for jj in range(M)}
            j = np.array([h.get(x, -1) for x in oo[0][:, 0, 0]])
        counts = np.bincount(j[j >= 0], minlength=M)
        ctx.check("law:all_draws_identified", int(counts.sum()) == ns, case)
        # exact binomial tails per grain (a Gaussian 6-sigma band is not a 1e-12 bound for counts with tiny means)
        from scipy.stats import binom

        lower = binom.cdf(counts, ns, f)          # P(X <= observed)
        upper = binom.sf(counts - 1, ns, f)       # P(X >= observed)
        ptail = np.minimum(lower, upper)
        ctx.minimum("law:min_binomial_tail_p", float(ptail.min()))
        wg = int(np.argmin(ptail))
        ctx.check("law:per_grain_band", bool(ptail.min() > 1e-12), case, worst_grain=wg, count=int(counts[wg]),
                  expected=float(ns * f[wg]), tail_p=float(ptail[wg]))
        big = ns * f >= 5
        if big.sum() >= 2:
            from scipy.stats import chi2

            e = ns * f[big]
            rest_e, rest_o = ns * f[~big].sum(), counts[~big].sum()
            stat = float(((counts[big] - e) ** 2 / e).sum() + ((rest_o - rest_e) ** 2 / rest_e if rest_e > 0 else 0))
            dof = int(big.sum() - 1 + (1 if rest_e > 0 else 0))
            p = float(chi2.sf(stat, max(dof, 1)))
            ctx.minimum("law:min_chi2_p", p)
            ctx.check("law:chi_square", p > 1e-12, case, stat=stat, dof=dof, p=p)
        if len(ctx.samples) < 4:
            ctx.sample(case, snapshot=snap, counts_head=counts[:5].tolist(), expected_head=(ns * f[:5]).round(1).tolist())


def run(ctx):
    bootstrap.import_pydrex()
    for case in gen_cases(ctx):
        check_case(ctx, case)
    ctx.extra.pop("_st", None)
