"""C19 -- parameter records, presets and configuration files mean what they declare.

(1) DefaultParams: hashable, frozen, dictionary round trip, every field present in as_dict();
(2) every Params* class of pydrex.mock (enumerated at run time): the values *declared in the source
    of the class body* (extracted with ast, evaluated in the module namespace -- independent of how
    the class machinery stores them) equal both attribute access and as_dict();
(3) generated TOML configurations: required inputs of one of the three input modes + any subset of the
    documented optional keys; parse_config must return, omitted keys take their documented default,
    provided keys their provided (typed) value, and the invariants on phases/fractions/fabric hold;
(4) single-fault invalid configurations must raise ConfigError.
"""
from __future__ import annotations

import ast
import dataclasses
import inspect
import math
import os
import shutil

import numpy as np

from .. import bootstrap

ID = "C19"
RULE = ("case = one record/preset check, one generated configuration file (input mode x subset of optional keys x values), or one "
        "single-fault configuration; distinct = descriptor digest; non-trivial = configuration omitting or providing at least one "
        "optional key / preset declaring at least one value different from the defaults")
ASSUMPTIONS = ["thorough tier: the 2^14 subsets of optional [parameters]/[output] keys are enumerated exhaustively for the velocity-gradient and pathline input modes (values per key still sampled); quick tier samples subsets",
               "pathline inputs are generated as .npz files only (SCSV pathline inputs are an unexplored corner: the parser hands every path to numpy.load)",
               "the mesh input mode re-uses the repository's own corner2d VTU mesh and final-location SCSV"]
TOLERANCES = {"values": "exact"}
REQUIRED_MONITORS = ["default_record", "preset_values_as_declared", "config_parses", "config_defaults_and_values",
                     "config_invariants", "fault_raises_ConfigError"]

PARAM_VALUES = {
    # phases by name or by their integer code (both forms are parsed into enumeration members)
    "phase_assemblage": [('["olivine"]', None), ('["olivine", "enstatite"]', None), ('["enstatite", "olivine"]', None), ('["enstatite"]', None),
                         ('[0]', None), ('[0, 1]', None), ('[1, 0]', None), ('["olivine", 1]', None), ('[1]', None)],
    "stress_exponent": [("1.4", 1.4), ("2.0", 2.0)],
    "deformation_exponent": [("3.0", 3.0), ("4.5", 4.5)],
    "gbm_mobility": [("10", 10), ("0", 0), ("200", 200)],
    "gbs_threshold": [("0.0", 0.0), ("0.4", 0.4)],
    "nucleation_efficiency": [("5.0", 5.0), ("0.0", 0.0)],
    "number_of_grains": [("100", 100), ("5000", 5000)],
    "initial_olivine_fabric": [('"A"', "A"), ('"B"', "B"), ('"C"', "C"), ('"D"', "D"), ('"E"', "E")],
}
OUT_VALUES = {
    "directory": [('"out"', None), ('"deep/er/out"', None)],
    "raw_output": None,      # depends on the assemblage
    "diagnostics": None,
    "anisotropy": [('["Voigt", "hexaxis"]', ["Voigt", "hexaxis"]), ("true", True), ('["moduli"]', ["moduli"])],
    "paths": [('["p1.scsv"]', ["p1.scsv"])],
    "log_level": [('"DEBUG"', "DEBUG"), ('"ERROR"', "ERROR")],
}


def plan(tier):
    if tier == "quick":
        return [{"mode": "jit", "timeout": 600}] * 4
    return [{"mode": "jit", "timeout": 3000}] * 16


def gen_cases(ctx):
    if ctx.shard == 0:
        yield {"kind": "default_record"}
        yield {"kind": "presets"}
    if ctx.tier == "thorough":
        # exhaustive over all 2^8 x 2^6 subsets of the optional [parameters] / [output] keys for the two cheap input modes
        idx = 0
        for mode in ("calc", "paths"):
            for pmask in range(1 << 8):
                for omask in range(1 << 6):
                    idx += 1
                    if idx % ctx.nshards != ctx.shard:
                        continue
                    rng = ctx.rng(7, idx)
                    yield {"kind": "config", "mode": mode, "seed": int(rng.integers(1 << 31)), "pmask": pmask, "omask": omask,
                           "tables": int(rng.integers(4)), "name": bool(rng.integers(2)), "strain_final": bool(rng.integers(2))}
    n = ctx.share(ctx.scale(500, 60000))
    for i in range(n):
        rng = ctx.rng(1, i)
        mode = ["calc", "calc", "paths", "paths", "mesh"][int(rng.integers(5))] if ctx.tier == "quick" else ["calc", "paths", "mesh"][i % 3]
        if mode == "mesh" and rng.random() < (0.7 if ctx.tier == "quick" else 0.5):
            mode = "calc"
        yield {"kind": "config", "mode": mode, "seed": int(rng.integers(1 << 31)),
               "pmask": int(rng.integers(1 << 8)), "omask": int(rng.integers(1 << 6)),
               "tables": int(rng.integers(4)), "name": bool(rng.integers(2)), "strain_final": bool(rng.integers(2))}
    for i in range(ctx.share(ctx.scale(160, 30000))):
        rng = ctx.rng(2, i)
        yield {"kind": "fault", "fault": FAULTS[i % len(FAULTS)], "seed": int(rng.integers(1 << 31))}


FAULTS = ["fractions_sum", "fractions_sum_small", "length_mismatch", "length_mismatch2", "unknown_phase", "unknown_phase_int", "phase_code_float", "phase_code_negative", "phase_code_nested", "unknown_fabric",
          "output_phase_not_simulated", "diag_phase_not_simulated", "unknown_output_phase", "coefficient_count", "missing_input",
          "missing_timestep", "non_numeric_timestep", "non_numeric_strain_final"]


def check_case(ctx, case):
    pydrex = bootstrap.import_pydrex()
    k = case["kind"]
    if k == "default_record":
        return _default(ctx, pydrex, case)
    if k == "presets":
        return _presets(ctx, pydrex, case)
    scratch = os.path.join(os.environ.get("PVMON_SCRATCH", "."), f"c19-{os.getpid()}")
    shutil.rmtree(scratch, ignore_errors=True)
    os.makedirs(scratch)
    cwd = os.getcwd()
    os.chdir(scratch)
    try:
        if k == "config":
            _config(ctx, pydrex, case, scratch)
        else:
            _fault(ctx, pydrex, case, scratch)
    finally:
        os.chdir(cwd)
        shutil.rmtree(scratch, ignore_errors=True)


def _default(ctx, pydrex, case):
    core = pydrex.core
    ctx.case(case)
    d = core.DefaultParams()
    probs = []
    try:
        hash(d)
    except Exception as e:
        probs.append(f"not hashable: {e}")
    fields = [f.name for f in dataclasses.fields(d)]
    for f in fields:
        try:
            setattr(d, f, getattr(d, f))
            probs.append(f"attribute {f} is assignable")
        except dataclasses.FrozenInstanceError:
            pass
        except Exception as e:
            probs.append(f"assigning {f} raised {type(e).__name__}, not FrozenInstanceError")
    try:
        object.__delattr__
        delattr(d, fields[0])
        probs.append("attribute deletable")
    except dataclasses.FrozenInstanceError:
        pass
    except Exception as e:
        probs.append(f"delattr raised {type(e).__name__}")
    dd = d.as_dict()
    if set(dd) != set(fields):
        probs.append(f"as_dict keys differ: {sorted(set(dd) ^ set(fields))}")
    for f in fields:
        if f in dd and dd[f] != getattr(d, f):
            probs.append(f"as_dict[{f}] != attribute")
    try:
        d2 = core.DefaultParams(**dd)
        if d2 != d or hash(d2) != hash(d):
            probs.append("round trip through as_dict changed the record")
    except Exception as e:
        probs.append(f"round trip raised {type(e).__name__}: {e}")
    dd["number_of_grains"] = 9999
    if core.DefaultParams().number_of_grains == 9999:
        probs.append("as_dict returned shared mutable state")
    if core.DefaultParams(**dd).number_of_grains != 9999:
        probs.append("constructor ignores overrides")
    # value semantics for every field
    for f in fields:
        v = getattr(d, f)
        if isinstance(v, (list, dict, set)):
            probs.append(f"field {f} is a mutable {type(v).__name__}")
    ctx.check("default_record", not probs, case, problems=probs)
    ctx.count("default_fields", len(fields))


def _declared(pydrex):
    """{class name: {attr: declared value}} from the *source* of pydrex.mock."""
    import importlib

    mock = importlib.import_module("pydrex.mock")
    tree = ast.parse(inspect.getsource(mock))
    ns = dict(vars(mock))
    out = {}
    for node in tree.body:
        if isinstance(node, ast.ClassDef) and node.name.startswith("Params"):
            decl = {}
            for st in node.body:
                tgt, val = None, None
                if isinstance(st, ast.Assign) and len(st.targets) == 1 and isinstance(st.targets[0], ast.Name):
                    tgt, val = st.targets[0].id, st.value
                elif isinstance(st, ast.AnnAssign) and isinstance(st.target, ast.Name) and st.value is not None:
                    tgt, val = st.target.id, st.value
                if tgt and not tgt.startswith("_"):
                    decl[tgt] = eval(compile(ast.Expression(val), "<mock>", "eval"), ns)
            out[node.name] = decl
    return out


def _presets(ctx, pydrex, case):
    import importlib

    mock, core = importlib.import_module("pydrex.mock"), pydrex.core
    decl = _declared(pydrex)
    names = [n for n in dir(mock) if n.startswith("Params") and inspect.isclass(getattr(mock, n))]
    ctx.case(case, nontrivial=len(names) >= 1)
    ctx.count("presets_enumerated", len(names))
    defaults = core.DefaultParams().as_dict()
    for n in names:
        cls = getattr(mock, n)
        sub = {"kind": "preset", "name": n}
        ctx.case(sub, nontrivial=any(defaults.get(k) != v for k, v in decl.get(n, {}).items()))
        try:
            inst = cls()
            dd = inst.as_dict()
        except Exception as e:
            ctx.check("preset_values_as_declared", False, sub, key=f"preset_raises/{type(e).__name__}", exc=str(e)[:150])
            continue
        probs = []
        if n not in decl:
            probs.append("class body not found in source")
        for k, v in decl.get(n, {}).items():
            a = getattr(inst, k, "<missing>")
            b = dd.get(k, "<missing>")
            if a != v or b != v:
                probs.append({"attr": k, "declared": repr(v), "attribute": repr(a), "as_dict": repr(b)})
        # undeclared fields keep the defaults
        for k, v in defaults.items():
            if k not in decl.get(n, {}) and (getattr(inst, k) != v or dd.get(k) != v):
                probs.append({"attr": k, "default": repr(v), "attribute": repr(getattr(inst, k))})
        try:
            hash(inst)
            try:
                setattr(inst, "gbm_mobility", 1)
                probs.append("preset is mutable")
            except dataclasses.FrozenInstanceError:
                pass
        except Exception as e:
            probs.append(f"preset not hashable: {e}")
        if set(dd) != set(defaults):
            probs.append("as_dict keys differ from the record fields")
        ctx.check("preset_values_as_declared", not probs, sub, problems=probs[:6])


# ---------------------------------------------------------------------------------------------
# configuration files


def _write_inputs(pydrex, scratch, mode):
    """Create the files a configuration refers to; returns the [input] lines for the required keys."""
    if mode == "calc":
        shutil.copy(os.path.join(os.path.dirname(pydrex.__file__), "data", "specs", "start.scsv"), os.path.join(scratch, "start.scsv"))
        return ['velocity_gradient = ["simple_shear_2d", "Y", "X", 5e-6]', 'locations_initial = "start.scsv"', "timestep = 1e9"]
    if mode == "paths":
        np.savez(os.path.join(scratch, "path001.npz"), X_1=np.zeros(3), t=np.arange(3.0))
        np.savez(os.path.join(scratch, "path002.npz"), X_2=np.zeros(3))
        return ['paths = ["path001.npz", "path002.npz"]']
    mesh = os.path.join(os.path.dirname(pydrex.__file__), "data", "meshes", "corner2d_2cmyr_5e5x1e5")
    return [f'mesh = "{mesh}.vtu"', f'locations_final = "{mesh}.scsv"', "timestep = 1e10"]


def _config(ctx, pydrex, case, scratch):
    core, io, err = pydrex.core, pydrex.io, pydrex.exceptions
    rng = np.random.default_rng([int(case["seed"]), 5])
    mode = case["mode"]
    lines = []
    expected = {"parameters": {}, "output": {}, "input": {}}
    if case["name"]:
        lines.append('name = "cfg-test"')
    lines.append("[input]")
    inp_lines = _write_inputs(pydrex, scratch, mode)
    # keys of a lower-priority input method are documented as "mutually exclusive; ignoring ...": their presence, and the
    # order of the keys inside the table, must not change which method is selected (mesh > velocity_gradient > paths)
    if case["seed"] % 3 == 0:
        extra = {"mesh": ['velocity_gradient = ["simple_shear_2d", "Y", "X", 5e-6]', 'locations_initial = "start.scsv"', 'paths = ["path001.npz", "path002.npz"]'],
                 "calc": ['paths = ["path001.npz", "path002.npz"]', 'locations_final = "start.scsv"'],
                 "paths": ['locations_initial = "start.scsv"', 'locations_final = "start.scsv"']}[mode]
        _write_inputs(pydrex, scratch, "calc")
        _write_inputs(pydrex, scratch, "paths")
        keep = [x for x in extra if rng.random() < 0.7] or extra[:1]
        inp_lines = inp_lines + keep
        ctx.cls("input_with_ignored_keys_of_other_methods")
    if case["seed"] % 2 == 0:
        inp_lines = [inp_lines[int(j)] for j in rng.permutation(len(inp_lines))]
    lines += inp_lines
    if mode == "paths" and rng.random() < 0.5:
        lines.append("timestep = 2.5e8")
        expected["input"]["timestep"] = 2.5e8
    elif mode == "paths":
        expected["input"]["timestep"] = math.nan
    if case["strain_final"]:
        lines.append("strain_final = 10")
        expected["input"]["strain_final"] = 10
    else:
        expected["input"]["strain_final"] = math.inf
    # parameters
    pkeys = list(PARAM_VALUES)
    chosen = {}
    for b, k in enumerate(pkeys):
        if case["pmask"] >> b & 1:
            chosen[k] = PARAM_VALUES[k][int(rng.integers(len(PARAM_VALUES[k])))]
    defaults = core.DefaultParams().as_dict()
    P = core.MineralPhase
    if "phase_assemblage" in chosen:
        txt = chosen["phase_assemblage"][0]
        phases = [P(int(s)) if s.strip().isdigit() else getattr(P, s.strip(' "')) for s in txt.strip("[]").split(",")]
        ctx.cls("phases_by_integer_code" if any(s.strip().isdigit() for s in txt.strip("[]").split(",")) else "phases_by_name")
        fr = [1.0] if len(phases) == 1 else [[0.7, 0.3], [0.5, 0.5], [0.25, 0.75]][int(rng.integers(3))]
        chosen["phase_fractions"] = (str(fr), fr)
        exp_phases = tuple(phases)
    else:
        exp_phases = tuple(defaults["phase_assemblage"])
    has_params = bool(chosen) or (case["tables"] & 1)
    if has_params:
        lines.append("[parameters]")
        for k, (txt, val) in chosen.items():
            lines.append(f"{k} = {txt}")
    for k, v in defaults.items():
        if k == "phase_assemblage":
            expected["parameters"][k] = exp_phases
        elif k == "initial_olivine_fabric":
            expected["parameters"][k] = getattr(core.MineralFabric, "olivine_" + chosen[k][1]) if k in chosen else core.MineralFabric.olivine_A
        elif k in chosen:
            expected["parameters"][k] = chosen[k][1]
        else:
            expected["parameters"][k] = v
    # output
    okeys = list(OUT_VALUES)
    ochosen = {}
    for b, k in enumerate(okeys):
        if case["omask"] >> b & 1:
            if OUT_VALUES[k] is None:
                sub = [p for p in exp_phases if rng.random() < 0.7] or [exp_phases[0]]
                ochosen[k] = ("[" + ", ".join(f'"{p.name}"' for p in sub) + "]", list(sub))
            else:
                ochosen[k] = OUT_VALUES[k][int(rng.integers(len(OUT_VALUES[k])))]
    if int(case["seed"]) % 6 == 0:
        ochosen = {}          # the whole [output] table is optional: leave it out altogether
        has_output = False
    else:
        has_output = bool(ochosen) or (case["tables"] & 2)
    if has_output:
        lines.append("[output]")
        for k, (txt, val) in ochosen.items():
            lines.append(f"{k} = {txt}")
    expected["output"]["raw_output"] = ochosen["raw_output"][1] if "raw_output" in ochosen else list(exp_phases)
    expected["output"]["diagnostics"] = ochosen["diagnostics"][1] if "diagnostics" in ochosen else list(exp_phases)
    expected["output"]["anisotropy"] = ochosen["anisotropy"][1] if "anisotropy" in ochosen else ["Voigt", "hexaxis", "moduli", "%decomp"]
    expected["output"]["log_level"] = ochosen["log_level"][1] if "log_level" in ochosen else "WARNING"
    if "paths" in ochosen and mode != "paths":
        expected["output"]["paths"] = ochosen["paths"][1]
    else:
        expected["output"]["paths"] = None
    # TOML tables may come in any order, with comments and blank lines in between
    blocks, cur = [], []
    for ln in lines:
        if ln.startswith("[") and cur:
            blocks.append(cur)
            cur = []
        cur.append(ln)
    blocks.append(cur)
    head = [b for b in blocks if not b[0].startswith("[")]
    tables = [b for b in blocks if b[0].startswith("[")]
    order = rng.permutation(len(tables))
    lines = [x for b in head for x in b] + [x for i in order for x in (["", "# table"] + tables[int(i)])]
    text = "\n".join(lines) + "\n"
    path = os.path.join(scratch, "cfg.toml")
    with open(path, "w") as f:
        f.write(text)
    c2 = {**case, "toml": text}
    nontriv = True
    ctx.case(case, nontrivial=nontriv)
    ctx.cls(f"mode={mode}")
    ctx.cls(f"n_optional_params={len(chosen)}")
    ctx.cls(f"n_optional_output={len(ochosen)}")
    ctx.cls("no_output_table" if not has_output else "output_table")
    ctx.cls("no_parameters_table" if not has_params else "parameters_table")
    try:
        cfg = io.parse_config(path)
    except Exception as e:
        ctx.check("config_parses", False, c2, key=f"config_raises/{type(e).__name__}",
                  exc=f"{type(e).__name__}: {str(getattr(e, 'message', e))[:200]}")
        return
    ctx.check("config_parses", True, c2)
    probs = []
    for sect in ("name", "input", "output", "parameters"):
        if sect not in cfg:
            probs.append(f"missing section {sect}")
    if not probs:
        if case["name"] and cfg["name"] != "cfg-test":
            probs.append(f"name {cfg['name']!r}")
        if not case["name"] and not (isinstance(cfg["name"], str) and cfg["name"].startswith("pydrex.")):
            probs.append(f"default name {cfg['name']!r}")
        pr = cfg["parameters"]
        for k, v in expected["parameters"].items():
            got = pr.get(k, "<missing>")
            g2 = tuple(got) if isinstance(got, (list, tuple)) else got
            v2 = tuple(v) if isinstance(v, (list, tuple)) else v
            if g2 != v2:
                probs.append(f"parameters.{k}: got {got!r}, expected {v!r}")
        out = cfg["output"]
        for k, v in expected["output"].items():
            got = out.get(k, "<missing>")
            if got != v:
                probs.append(f"output.{k}: got {got!r}, expected {v!r}")
        if "directory" in ochosen:
            want = os.path.realpath(os.path.join(scratch, ochosen["directory"][0].strip('"')))
            if os.path.realpath(str(out.get("directory"))) != want:
                probs.append(f"output.directory {out.get('directory')} != {want}")
        else:
            if os.path.realpath(str(out.get("directory"))) != os.path.realpath(os.getcwd()):
                probs.append(f"default output.directory {out.get('directory')}")
        inp = cfg["input"]
        for k, v in expected["input"].items():
            got = inp.get(k, "<missing>")
            if not (got == v or (isinstance(v, float) and isinstance(got, float) and math.isnan(v) and math.isnan(got))):
                probs.append(f"input.{k}: got {got!r}, expected {v!r}")
        if mode == "calc":
            if not (isinstance(inp.get("velocity_gradient"), tuple) and callable(inp["velocity_gradient"][0]) and inp.get("paths") is None
                    and inp.get("mesh") is None and inp.get("locations_final") is None and hasattr(inp.get("locations_initial"), "_fields")):
                probs.append("calc-mode input section malformed")
        elif mode == "paths":
            if not (isinstance(inp.get("paths"), list) and len(inp["paths"]) == 2 and inp.get("mesh") is None
                    and inp.get("locations_initial") is None and inp.get("locations_final") is None):
                probs.append("paths-mode input section malformed")
        else:
            if not (inp.get("mesh") is not None and hasattr(inp.get("locations_final"), "_fields") and inp.get("paths") is None
                    and inp.get("velocity_gradient") is None and inp.get("locations_initial") is None):
                probs.append("mesh-mode input section malformed")
    ctx.check("config_defaults_and_values", not probs, c2, problems=probs[:6])
    if "parameters" in cfg:
        pr = cfg["parameters"]
        inv = (len(pr["phase_assemblage"]) == len(pr["phase_fractions"]) and abs(sum(pr["phase_fractions"]) - 1) <= 1e-12
               and all(isinstance(p, core.MineralPhase) for p in pr["phase_assemblage"])
               and isinstance(pr["initial_olivine_fabric"], core.MineralFabric)
               and all(isinstance(p, core.MineralPhase) for p in cfg["output"]["raw_output"] + cfg["output"]["diagnostics"]))
        ctx.check("config_invariants", bool(inv), c2)
    if len(ctx.samples) < 3:
        ctx.sample(c2)


def _fault(ctx, pydrex, case, scratch):
    io, err = pydrex.io, pydrex.exceptions
    f = case["fault"]
    inp = ["[input]"] + _write_inputs(pydrex, scratch, "calc")
    params, output = ["[parameters]"], ["[output]"]
    if f == "fractions_sum":
        params += ['phase_assemblage = ["olivine", "enstatite"]', "phase_fractions = [0.7, 0.2]"]
    elif f == "fractions_sum_small":
        params += ['phase_assemblage = ["olivine", "enstatite"]', "phase_fractions = [0.7, 0.3001]"]
    elif f == "length_mismatch":
        params += ['phase_assemblage = ["olivine", "enstatite"]', "phase_fractions = [1.0]"]
    elif f == "length_mismatch2":
        params += ['phase_assemblage = ["olivine"]', "phase_fractions = [0.5, 0.5]"]
    elif f == "unknown_phase":
        params += ['phase_assemblage = ["olivine", "garnet"]', "phase_fractions = [0.7, 0.3]"]
    elif f == "unknown_phase_int":
        params += ["phase_assemblage = [0, 7]", "phase_fractions = [0.7, 0.3]"]
    elif f == "phase_code_float":
        params += ["phase_assemblage = [0, 1.0]", "phase_fractions = [0.7, 0.3]"]
    elif f == "phase_code_negative":
        params += ["phase_assemblage = [0, -1]", "phase_fractions = [0.7, 0.3]"]
    elif f == "phase_code_nested":
        params += ['phase_assemblage = [["olivine"], "enstatite"]', "phase_fractions = [0.7, 0.3]"]
    elif f == "unknown_fabric":
        params += ['initial_olivine_fabric = "Q"']
    elif f == "output_phase_not_simulated":
        output += ['raw_output = ["enstatite"]']
    elif f == "diag_phase_not_simulated":
        output += ['diagnostics = ["olivine", "enstatite"]']
    elif f == "unknown_output_phase":
        output += ['raw_output = ["garnet"]']
    elif f == "coefficient_count":
        params += ["disl_coefficients = [1.0, 2.0, 3.0]"]
    elif f == "missing_input":
        inp = []
    elif f == "missing_timestep":
        inp = [x for x in inp if not x.startswith("timestep")]
    elif f == "non_numeric_timestep":
        inp = [x if not x.startswith("timestep") else 'timestep = "1e9"' for x in inp]
    elif f == "non_numeric_strain_final":
        inp = inp + ['strain_final = "10"']
    text = "\n".join(inp + output + params) + "\n"
    path = os.path.join(scratch, "bad.toml")
    with open(path, "w") as fh:
        fh.write(text)
    c2 = {**case, "toml": text}
    ctx.case(case)
    ctx.cls(f"fault={f}")
    try:
        io.parse_config(path)
        ctx.check("fault_raises_ConfigError", False, c2, key=f"fault/{f}/accepted")
    except err.ConfigError:
        ctx.check("fault_raises_ConfigError", True, c2)
    except Exception as e:
        ctx.check("fault_raises_ConfigError", False, c2, key=f"fault/{f}/wrong_exception", exc=f"{type(e).__name__}: {str(e)[:150]}")


def run(ctx):
    bootstrap.import_pydrex()
    for case in gen_cases(ctx):
        check_case(ctx, case)
