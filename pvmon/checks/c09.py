"""C09 -- grain-boundary sliding: small grains are floored and do not rotate.

Recording wrapper on pydrex.utils.apply_gbs (copies of all five arguments before, both results
after).  Per-call oracle on every call (direct hostile calls and every call a real integration
makes); history oracle after each update: the reference orientations handed to apply_gbs are the
snapshot at the start of that update, frozen grains of the stored snapshot equal the previous
snapshot bit-for-bit, stored fractions respect the floor chi/(n(1+chi)), and the stored snapshot is
exactly what the last apply_gbs call of the update produced (LSODA ignores edits of solver.y between
steps, so only that last call persists -- which is what the property is worded on).
"""
from __future__ import annotations

import warnings

import numpy as np

from .. import bootstrap, drive, gen

ID = "C09"
RULE = ("case = one direct hostile apply_gbs call or one monitored update history in which grains shrink through the "
        "threshold; distinct = descriptor digest; non-trivial = at least one grain below chi/n (direct) / at least one "
        "frozen-grain comparison made (history)")
ASSUMPTIONS = ["direct calls use float64 C-contiguous arrays as the integrator does",
               "volume-order preservation is required non-strictly (ties allowed)"]
TOLERANCES = {"floor_renormalise": "1e-12 + 8*n*eps", "stored_vs_last_call": 1e-12, "orientation provenance": "bit-exact"}
REQUIRED_MONITORS = ["call:frozen_orientation_is_reference", "call:unfrozen_orientation_kept", "call:floor_and_renormalise",
                     "hist:reference_is_start_of_update", "hist:stored_frozen_equals_previous", "hist:stored_floor",
                     "hist:stored_is_last_gbs_output", "hist:sliding_uses_mineral_threshold_and_grain_count"]


def plan(tier):
    if tier == "quick":
        return [{"mode": "jit", "timeout": 900}] * 6
    return [{"mode": "jit", "timeout": 3400}] * 14 + [{"mode": "bounds", "timeout": 3400}, {"mode": "suite", "timeout": 3500}]


def gen_cases(ctx):
    slow = 4 if ctx.mode == "bounds" else 1   # bounds-checked kernels are several times slower
    for i in range(ctx.share(ctx.scale(2400, 200000)) // slow):
        rng = ctx.rng(1, i)
        n = int(rng.choice([1, 2, 3, 10, 100, 3500], p=[0.05, 0.1, 0.15, 0.3, 0.35, 0.05]))
        yield {"kind": "direct", "seed": int(rng.integers(1 << 31)), "n": n,
               "chi": float(rng.choice([0.0, 1e-12, 0.3, 0.9, 0.999, rng.uniform(0, 1)])),
               "vol": str(rng.choice(["dirichlet_sharp", "dirichlet", "uniform", "zeros", "ties", "threshold_ties", "all_below", "dominant"])),
               "tex": str(rng.choice(["random", "cluster", "single"]))}
    for i in range(ctx.share(ctx.scale(84, 3000)) // slow):
        rng = ctx.rng(2, i)
        c = drive.random_history_case(rng)
        c["kind"] = "history"
        c["n"] = int(rng.choice([10, 50, 100, 200], p=[0.2, 0.4, 0.3, 0.1]))
        c["N"] = int(rng.choice([2, 4, 8]))
        c["strain"] = float(rng.choice([1.0, 2.0, 3.0]))
        c["regime"] = int(rng.choice([4, 4, 6, 4, 6, 0, 7, 1]))   # sliding applies in every accepted regime
        if rng.random() < 0.2:
            c["regime2"] = int(rng.choice([0, 7, 1, 4, 6]))
        c["params"]["gbm_mobility"] = float(rng.choice([125.0, 200.0]))
        c["params"]["nucleation_efficiency"] = 5.0
        c["params"]["gbs_threshold"] = float(rng.choice([0.0, 0.3, 0.4, 0.9, rng.uniform(0.05, 0.95)]))
        c["vol"] = str(rng.choice(["uniform", "dirichlet", "dirichlet_sharp", "zeros"]))
        if i % 2:   # one phase of a two-phase aggregate: the threshold stays chi / n_grains of *this* mineral
            c["phi"] = float(rng.choice([0.7, 0.3, rng.uniform(0.05, 0.95)]))
        else:
            c.pop("phi", None)
        yield c


def check_case(ctx, case):
    pydrex = bootstrap.import_pydrex()
    if case["kind"] == "direct":
        return _direct(ctx, pydrex, case)
    return _history(ctx, pydrex, case)


def call_oracle(ctx, c, case, where):
    """Per-call oracle on one recorded apply_gbs call."""
    chi, n = c["chi"], c["n"]
    thr = chi / n
    mask = c["f_in"] < thr
    ctx.count(f"{where}:calls")
    ctx.count(f"{where}:grains_below_threshold", int(mask.sum()))
    ctx.check("call:frozen_orientation_is_reference", bool(np.array_equal(c["a_out"][mask], c["prev"][mask])), case,
              where=where, n_frozen=int(mask.sum()))
    ctx.check("call:unfrozen_orientation_kept", bool(np.array_equal(c["a_out"][~mask], c["a_in"][~mask])), case, where=where)
    exp = np.where(mask, thr, c["f_in"])
    s = exp.sum()
    exp = exp / s
    err = float(np.abs(c["f_out"] - exp).max()) if n else 0.0
    ctx.extreme("floor_renormalise_err", err)
    # the kernel's sequential sum and numpy's pairwise sum differ by up to ~n*eps relative
    tolf = 1e-12 + 8 * n * 2.3e-16
    ctx.check("call:floor_and_renormalise", err <= tolf and abs(float(c["f_out"].sum()) - 1) <= tolf, case, where=where, err=err, tol=tolf)
    ctx.check("call:reference_not_mutated", bool(np.array_equal(c["prev"], c["prev_after"])), case, where=where)
    order = np.argsort(c["f_in"], kind="stable")
    ctx.check("call:volume_order_preserved", bool(np.all(np.diff(c["f_out"][order]) >= -1e-18)), case, where=where)
    if chi == 0:
        ctx.check("call:chi0_nothing_frozen", not mask.any() and bool(np.array_equal(c["a_out"], c["a_in"])), case, where=where)
    return mask


def _direct(ctx, pydrex, case):
    utils = pydrex.utils
    rng = np.random.default_rng([int(case["seed"]), 5])
    n, chi = case["n"], case["chi"]
    thr = chi / n
    vk = case["vol"]
    if vk == "threshold_ties":
        f = rng.dirichlet(np.ones(n))
        idx = rng.random(n) < 0.5
        choices = np.array([thr, np.nextafter(thr, 0), np.nextafter(thr, 1), thr * (1 - 1e-12), thr * (1 + 1e-12), thr * (1 - 1e-6), thr * (1 + 1e-6)])
        f[idx] = rng.choice(choices, size=int(idx.sum()))
        if f.sum() <= 0:
            f[:] = 1.0 / n
    elif vk == "all_below":
        f = np.full(n, thr * rng.uniform(0, 0.99)) if thr > 0 else np.full(n, 1.0 / n)
    else:
        _, f = gen.volumes(rng, n, vk)
    f = np.ascontiguousarray(f, float)
    _, A = gen.texture(rng, n, case["tex"])
    _, P = gen.texture(rng, n, "random")
    a_in, f_in, p_in = A.copy(), f.copy(), P.copy()
    try:
        o, fo = utils.apply_gbs(A, f, chi, P, n)
    except Exception as e:
        ctx.case(case, nontrivial=False)
        ctx.check("call:does_not_raise", False, case, key=f"raises/{type(e).__name__}", exc=str(e)[:200])
        return
    c = dict(a_in=a_in, f_in=f_in, prev=p_in, chi=chi, n=n, a_out=np.asarray(o), f_out=np.asarray(fo), prev_after=P)
    mask = call_oracle(ctx, c, case, "direct")
    ctx.case(case, nontrivial=bool(mask.any()))
    ctx.cls(f"vol={vk}")
    ctx.cls("chi=0" if chi == 0 else "chi>0")
    if len(ctx.samples) < 2 and mask.any():
        ctx.sample(case, n_below=int(mask.sum()), min_f_out=float(np.min(fo)))


def _history(ctx, pydrex, case):
    mon = ctx.extra.get("_mon")
    if mon is None:
        mon = drive.Monitors(pydrex, ctx).install()
        ctx.extra["_mon"] = mon
    mon.case = case
    H = drive.History(pydrex, case)
    m = H.mineral()
    chi, n = H.params["gbs_threshold"], H.n
    mon.record_gbs = True
    mon.gbs_calls = []
    frozen_cmp = {"n": 0, "crossed": 0}

    def on_update(i, a, b, F):
        calls = mon.gbs_calls
        mon.gbs_calls = []
        ctx.check("hist:gbs_called_every_update", len(calls) > 0, case, update=i)
        if not calls:
            return
        start = m.orientations[-2]
        for c in calls:
            call_oracle(ctx, c, case, "solver")
            ctx.check("hist:sliding_uses_mineral_threshold_and_grain_count", float(c["chi"]) == float(chi) and int(c["n"]) == int(n),
                      case, update=i, chi_passed=float(c["chi"]), chi=float(chi), n_passed=int(c["n"]), n=int(n))
            ctx.check("hist:reference_is_start_of_update", bool(np.array_equal(c["prev"], start)), case, update=i)
        last = calls[-1]
        mask = last["f_in"] < chi / n
        frozen_cmp["n"] += int(mask.sum())
        ctx.check("hist:stored_frozen_equals_previous", bool(np.array_equal(m.orientations[-1][mask], start[mask])), case,
                  update=i, n_frozen=int(mask.sum()))
        floor = chi / (n * (1 + chi))
        fmin = float(m.fractions[-1].min())
        ctx.check("hist:stored_floor", fmin >= floor * (1 - 1e-12), case, update=i, fmin=fmin, floor=floor)
        expA = last["a_out"].clip(-1, 1)
        expf = last["f_out"].clip(0, None)
        expf = expf / expf.sum()
        ctx.check("hist:stored_is_last_gbs_output", bool(np.array_equal(m.orientations[-1], expA))
                  and float(np.abs(m.fractions[-1] - expf).max()) <= 1e-12, case, update=i,
                  dA=float(np.abs(m.orientations[-1] - expA).max()), df=float(np.abs(m.fractions[-1] - expf).max()))
        if chi == 0:
            ctx.check("hist:chi0_no_grain_frozen_or_floored", not mask.any(), case, update=i)
        # grains that crossed the threshold during this update
        prevf = m.fractions[-2]
        frozen_cmp["crossed"] += int(((prevf >= chi / n) & mask).sum())

    try:
        with warnings.catch_warnings():
            warnings.simplefilter("ignore")
            H.run(m, on_update=on_update)
    except Exception as e:
        if drive.solver_gave_up(case, e):
            ctx.count("solver_gave_up_under_user_tolerances")
        else:
            ctx.check("hist:completes", False, case, key=f"raises/{type(e).__name__}", exc=str(e)[:200])
    finally:
        mon.record_gbs = False
        mon.gbs_calls = []
    ctx.count("frozen_grain_comparisons", frozen_cmp["n"])
    ctx.count("grains_crossed_threshold", frozen_cmp["crossed"])
    ctx.case(case, nontrivial=frozen_cmp["n"] > 0)
    ctx.cls(f"hist:chi={'0' if chi == 0 else '>0'}")
    ctx.cls("hist:two_phase" if "phi" in case else "hist:single_phase")
    ctx.cls(f"hist:regime={H.regime}" + (f"->{H.regime2}" if H.regime2 is not None else "") + f"/{H.regime_via}")
    if len(ctx.samples) < 4 and frozen_cmp["n"] > 0:
        ctx.sample(case, frozen_grain_comparisons=frozen_cmp["n"], crossed=frozen_cmp["crossed"],
                   min_stored_fraction=float(min(f.min() for f in m.fractions)))


def run(ctx):
    if ctx.mode == "suite":
        from .. import suite

        return suite.run_suite_shard(ctx, "C09")
    bootstrap.import_pydrex()
    for case in gen_cases(ctx):
        check_case(ctx, case)
    mon = ctx.extra.pop("_mon", None)
    if mon is not None:
        mon.remove()


def finalize(merged, tier):
    r = []
    if merged["counters"].get("frozen_grain_comparisons", 0) == 0:
        r.append("no frozen-grain comparison was made in any integration")
    if merged["counters"].get("grains_crossed_threshold", 0) == 0:
        r.append("no grain crossed the sliding threshold during an integration")
    return r
