"""C08 -- multiphase: each phase evolves independently with its own volume factor.

Paired executions: (a) a mineral in a two-phase assemblage with fraction phi vs the same mineral
single-phase with M* replaced by phi*M*; (b) simultaneous permutation of phase list and fraction
list (bit-identical); (c) interleaving with updates of other minerals, update_all in either order
(bit-identical histories per mineral); (d) determinism of identically built and driven minerals
(bit-identical).
"""
from __future__ import annotations

import copy
import warnings

import numpy as np

from .. import bootstrap, drive, gen

ID = "C08"
RULE = ("case = one assemblage history (phase, fabric, phi, texture, L, partition, parameters) executed under the four "
        "relations; distinct = descriptor digest; non-trivial = volume fractions of the mineral changed by > 1e-3 (so "
        "the phi*M* factor was actually exercised) and phi < 1")
ASSUMPTIONS = ["(a) is required within the accumulated ODE tolerance (the runs differ only in where phi*M* is formed); "
               "(b)-(d) are required bit-identical as the property states"]
TOLERANCES = {"a": "5e-3 + 1e-3*(N + 2*strain)", "b,c,d": "bit-identical"}
REQUIRED_MONITORS = ["a:textures_related", "b:permutation_bit_identical", "c:interleaving_bit_identical",
                     "c:update_all_order_bit_identical", "d:determinism_bit_identical", "e:mutated_params_dict_equals_fresh_dict"]


def plan(tier):
    if tier == "quick":
        return [{"mode": "jit", "timeout": 900}] * 6
    return [{"mode": "jit", "timeout": 3400}] * 16


def gen_cases(ctx):
    for i in range(ctx.share(ctx.scale(60, 1800))):
        rng = ctx.rng(1, i)
        c = drive.random_history_case(rng)
        c["kind"] = "assemblage"
        c["combo"] = 5 if i % 2 else int(rng.integers(5))
        c["n"] = int(rng.choice([5, 20, 50]))
        c["N"] = int(rng.choice([1, 3, 8]))
        c["phi"] = float(rng.choice([0.3, 0.7, 0.5, rng.uniform(0.05, 0.95), 1e-3, 0.999]))
        c["params"]["gbm_mobility"] = float(rng.choice([125.0, 200.0, 50.0]))
        c["strain"] = float(rng.choice([0.5, 1.0, 2.0]))
        if rng.random() < 0.3:
            c["regime2"] = int(rng.choice([0, 7, 4, 6]))   # regime switch inside the history (through get_regime)
        yield c


def _same(m1, m2):
    return (len(m1.orientations) == len(m2.orientations) and len(m1.fractions) == len(m2.fractions)
            and all(np.array_equal(a, b) for a, b in zip(m1.orientations, m2.orientations))
            and all(np.array_equal(a, b) for a, b in zip(m1.fractions, m2.fractions)))


def check_case(ctx, case):
    pydrex = bootstrap.import_pydrex()
    core = pydrex.core
    mon = ctx.extra.get("_mon")
    if mon is None:
        mon = drive.Monitors(pydrex, ctx).install()
        ctx.extra["_mon"] = mon
    mon.case = case
    H = drive.History(pydrex, case)     # two-phase params: (own, other) with (phi, 1-phi)
    phi = case["phi"]
    eps = [H.strain_upto(i) for i in range(H.N)]

    def tol_of(k):
        return 5e-3 + 1e-3 * (k + 2 * eps[k - 1])

    # (a) multiphase vs single-phase with phi*M*
    single = dict(H.params)
    single["phase_assemblage"] = (H.phase,)
    single["phase_fractions"] = (1.0,)
    single["gbm_mobility"] = phi * H.params["gbm_mobility"]
    m_multi, m_single = H.mineral(), H.mineral()
    pr = drive.PairRun(ctx, pydrex, mon, case, H, "a")
    ok = pr.compare(m_multi, m_single, {}, {"params": single}, mapA=lambda A: A, mapF=lambda F: F, tol_of=tol_of, exact=True,
                    fresh=lambda: (H.mineral(), H.mineral()))
    dfmax = max(float(np.abs(f - m_multi.fractions[0]).max()) for f in m_multi.fractions)
    ctx.extreme("volume_change", dfmax)
    nontriv = bool(ok and dfmax > 1e-3 and phi < 1)
    ctx.case(case, nontrivial=nontriv)
    ctx.cls(f"phase={int(H.phase)}")
    if int(H.phase) == 1 and dfmax > 1e-3:
        ctx.count("enstatite_cases_with_volume_change")
    # (a') the factor must be the mineral's OWN fraction: a run with the other phase's fraction differs
    if nontriv and abs(phi - 0.5) > 0.05 and case["params"]["gbm_mobility"] > 0:
        wrong = dict(single)
        wrong["gbm_mobility"] = (1 - phi) * H.params["gbm_mobility"]
        m_wrong = H.mineral()
        try:
            H.run(m_wrong, params=wrong)
            d = max(float(np.abs(a - b).max()) for a, b in zip(m_wrong.fractions, m_multi.fractions))
            ctx.extreme("sensitivity_to_wrong_fraction", d)
            ctx.count("sensitivity_probes")
            if d > 2 * tol_of(H.N):
                ctx.count("sensitivity_probes_discriminating")
        except Exception:
            pass
    # (b) permuted assemblage lists -> bit-identical
    perm = dict(H.params)
    perm["phase_assemblage"] = tuple(reversed(H.params["phase_assemblage"]))
    perm["phase_fractions"] = tuple(reversed(H.params["phase_fractions"]))
    m_perm = H.mineral()
    try:
        Fp = H.run(m_perm, params=perm)
        ctx.check("b:permutation_bit_identical", _same(m_perm, m_multi), case)
    except Exception as e:
        if drive.solver_gave_up(case, e):
            ctx.count("solver_gave_up_under_user_tolerances")
        else:
            ctx.check("b:permutation_bit_identical", False, case, key=f"raises/{type(e).__name__}", exc=str(e)[:200])
    # (d) determinism
    m_again = H.mineral()
    H.run(m_again)
    ctx.check("d:determinism_bit_identical", _same(m_again, m_multi), case)
    # (d') checkpoint / restart: a mineral saved to an NPZ archive half-way and restored through either loader is the
    # same mineral (no state lives outside the stored history), so the continued run is bit-identical to the straight one
    if H.N >= 2:
        import os
        import tempfile

        k = H.N // 2
        m_a = H.mineral()
        skw = H.solver_kw()
        gr = H.get_regime_fn()
        try:
            with warnings.catch_warnings():
                warnings.simplefilter("ignore")
                F = drive.relayout(H.F0, H.layout)
                for (a, b) in zip(H.ts[:k], H.ts[1:k + 1]):
                    F = m_a.update_orientations(H.params, F, H.Lfun, (a, b, H.posfun), get_regime=gr, **skw)
                with tempfile.TemporaryDirectory(prefix="pvmon-c08-") as d:
                    fn = os.path.join(d, "checkpoint.npz")
                    via = ["from_file", "load", "from_file_postfix"][int(case["seed"]) % 3]
                    if via == "from_file_postfix":
                        m_a.save(fn, postfix="ckpt")
                        m_b = pydrex.Mineral.from_file(fn, postfix="ckpt")
                    else:
                        m_a.save(fn)
                        if via == "from_file":
                            m_b = pydrex.Mineral.from_file(fn)
                        else:
                            m_b = pydrex.Mineral(n_grains=H.n)
                            m_b.load(fn)
                for (a, b) in zip(H.ts[k:-1], H.ts[k + 1:]):
                    F = m_b.update_orientations(H.params, F, H.Lfun, (a, b, H.posfun), get_regime=gr, **skw)
            ctx.check("d:restart_from_archive_bit_identical", _same(m_b, m_multi), case, via=via, at_update=k)
            ctx.cls(f"restart_via={via}")
        except Exception as e:
            if drive.solver_gave_up(case, e):
                ctx.count("solver_gave_up_under_user_tolerances")
            else:
                ctx.check("d:restart_from_archive_bit_identical", False, case, key=f"restart_raises/{type(e).__name__}", exc=str(e)[:200])
    # (e) no hidden state tied to the identity of the parameter dictionary: the *same dict object* is
    # mutated in place (different fractions) between two runs and must behave like a fresh dict
    phi2 = 1.0 - phi if abs(phi - 0.5) > 0.05 else 0.9
    mutable = dict(H.params)
    warm = H.mineral()
    try:
        H.run(warm, params=mutable)                                   # first use of this dict object
        mutable["phase_fractions"] = (phi2, 1.0 - phi2)               # in-place change of the same object
        m_mut = H.mineral()
        H.run(m_mut, params=mutable)
        freshd = dict(H.params)
        freshd["phase_fractions"] = (phi2, 1.0 - phi2)
        m_fresh = H.mineral()
        H.run(m_fresh, params=freshd)
        ctx.check("e:mutated_params_dict_equals_fresh_dict", _same(m_mut, m_fresh), case, phi=phi, phi2=phi2)
    except Exception as e:
        if drive.solver_gave_up(case, e):
            ctx.count("solver_gave_up_under_user_tolerances")
        else:
            ctx.check("e:mutated_params_dict_equals_fresh_dict", False, case, key=f"raises/{type(e).__name__}", exc=str(e)[:200])
    # (c) interleaving with other minerals and update_all order
    other_phase = H.params["phase_assemblage"][1]
    other_fab = core.MineralFabric.enstatite_AB if other_phase == core.MineralPhase.enstatite else core.MineralFabric.olivine_A
    rng = np.random.default_rng([int(case["seed"]), 41])

    def other():
        _, A = gen.texture(np.random.default_rng([int(case["seed"]), 43]), H.n, "random")
        return pydrex.Mineral(phase=other_phase, fabric=other_fab, regime=core.DeformationRegime.matrix_dislocation,
                              n_grains=H.n, fractions_init=np.full(H.n, 1.0 / H.n), orientations_init=A)

    X, Y, Z = H.mineral(), other(), H.mineral(A0=gen.haar(rng, H.n))
    F = H.F0.copy()
    gr = H.get_regime_fn()   # same regime delivery and solver keyword arguments as the paired runs above
    skw = H.solver_kw()
    with warnings.catch_warnings():
        warnings.simplefilter("ignore")
        try:
            for (a, b) in zip(H.ts[:-1], H.ts[1:]):
                # the interleaved minerals are driven with *other* solver options than X (options must not leak)
                Y.update_orientations(H.params, F, H.Lfun, (a, b, H.posfun), rtol=1e-3, atol=1e-2)
                Fn = X.update_orientations(H.params, F, H.Lfun, (a, b, H.posfun), get_regime=gr, **skw)
                Z.update_orientations(H.params, F @ np.diag([1.0, 2.0, 0.5]), H.Lfun, (a, b, H.posfun), get_regime=gr,
                                      max_step=abs(b - a) / 2, rtol=1e-4)
                F = Fn
            ctx.check("c:interleaving_bit_identical", _same(X, m_multi), case)
            X1, Y1, X2, Y2 = H.mineral(), other(), H.mineral(), other()
            # Both orders get the *same* starting F at every update (the F returned by a bulk update is
            # the last mineral's solver result, which legitimately differs between minerals at solver
            # tolerance; feeding each order its own returned F would compare different inputs).
            F1 = F2 = H.F0.copy()
            for (a, b) in zip(H.ts[:-1], H.ts[1:]):
                Fin = F1
                F1 = pydrex.minerals.update_all([X1, Y1], H.params, Fin.copy(), H.Lfun, (a, b, H.posfun), get_regime=gr, **skw)
                F2 = pydrex.minerals.update_all([Y2, X2], H.params, Fin.copy(), H.Lfun, (a, b, H.posfun), get_regime=gr, **skw)
            ctx.check("c:update_all_order_bit_identical", _same(X1, X2) and _same(Y1, Y2), case)
            okF = float(np.abs(F1 - F2).max()) <= 2 * tol_of(H.N) * max(1.0, np.abs(F1).max())
            keyF, explF = "c:update_all_same_F", None
            if not okF and case["L"].get("mode", "const") != "const":
                # known finding K10: each mineral's solver steps over variations of L differently; defect model = the same
                # two bulk histories with a capped solver step agree
                keyF = "F_equals_reference/adaptive_steps_skip_variation_of_L"
                try:
                    X3, Y3, X4, Y4 = H.mineral(), other(), H.mineral(), other()
                    F3 = F4 = H.F0.copy()
                    for (a, b) in zip(H.ts[:-1], H.ts[1:]):
                        Fin = F3
                        cap = {"max_step": abs(b - a) / 25}
                        F3 = pydrex.minerals.update_all([X3, Y3], H.params, Fin.copy(), H.Lfun, (a, b, H.posfun), get_regime=gr, **cap)
                        F4 = pydrex.minerals.update_all([Y4, X4], H.params, Fin.copy(), H.Lfun, (a, b, H.posfun), get_regime=gr, **cap)
                    explF = bool(float(np.abs(F3 - F4).max()) <= 2 * tol_of(H.N) * max(1.0, np.abs(F3).max()))
                except Exception:
                    explF = False
            ctx.check("c:update_all_same_F", okF, case, key=keyF, explained=explF, dF=float(np.abs(F1 - F2).max()))
        except Exception as e:
            if drive.solver_gave_up(case, e):
                ctx.count("solver_gave_up_under_user_tolerances")
            else:
                ctx.check("c:interleaving_completes", False, case, key=f"raises/{type(e).__name__}", exc=str(e)[:200])
    if len(ctx.samples) < 3:
        ctx.sample(case, volume_change=dfmax)


def run(ctx):
    bootstrap.import_pydrex()
    for case in gen_cases(ctx):
        check_case(ctx, case)
    mon = ctx.extra.pop("_mon", None)
    if mon is not None:
        mon.remove()


def finalize(merged, tier):
    r = []
    if merged["counters"].get("enstatite_cases_with_volume_change", 0) == 0:
        r.append("no enstatite case with volume change > 1e-3: the enstatite side of (a) was vacuous")
    if merged["counters"].get("sensitivity_probes_discriminating", 0) == 0:
        r.append("no case in which using the other phase's fraction would have been detectable")
    return r
