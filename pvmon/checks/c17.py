"""C17 -- Mineral persistence round trip is exact for any history and any postfix set.

History checker against a sequential model of the NPZ archive: the harness keeps
{postfix -> (meta, fractions, orientations)} while it drives random save sequences (optional
whole-file save first, then 1..8 minerals under distinct postfixes in random order); afterwards the
real archive is read back through both loaders for every postfix in random order and compared
bit-for-bit (tobytes) with the model, and the archive's key set must equal the model's (conservation).
Corrupt state and non-NPZ filenames must raise ValueError and leave the directory listing unchanged.
"""
from __future__ import annotations

import os
import shutil
import zipfile

import numpy as np

from .. import bootstrap, gen

ID = "C17"
RULE = ("case = one archive history (1..8 minerals with random phase/fabric/regime ordinals, grain counts, snapshot counts and "
        "float64 contents incl. NaN/inf/-0.0/subnormals; random save order; loads in random order through both loaders) or one "
        "rejection case; distinct = descriptor digest; non-trivial = archive with >= 2 entries or a mineral with >= 2 snapshots")
ASSUMPTIONS = ["postfixes are distinct strings of letters, digits, '_' and '-' (incl. the empty string) or integers; str(p) distinct",
               "attribute comparison is field by field (Mineral.__eq__ also compares the non-persisted seed)"]
TOLERANCES = {"arrays": "bit-identical (tobytes)"}
REQUIRED_MONITORS = ["from_file_restores_exactly", "load_restores_exactly", "archive_keys_conserved", "rejected_without_writing"]


def plan(tier):
    if tier == "quick":
        return [{"mode": "jit", "timeout": 600}] * 4
    return [{"mode": "jit", "timeout": 3000}] * 16


def gen_cases(ctx):
    for i in range(ctx.share(ctx.scale(240, 50000))):
        rng = ctx.rng(1, i)
        yield {"kind": "archive", "seed": int(rng.integers(1 << 31)), "n_minerals": int(rng.integers(1, 9)),
               "whole_first": bool(rng.random() < 0.4)}
    for i in range(ctx.share(ctx.scale(120, 20000))):
        rng = ctx.rng(2, i)
        yield {"kind": "reject", "seed": int(rng.integers(1 << 31)),
               "fault": ["snapshot_counts", "n_grains", "ragged", "name_noext", "name_dat", "name_bak", "name_dat_postfix",
                         "load_non_npz", "from_file_non_npz"][i % 9]}
    # array sizes not matching the grain count, in any snapshot (first / middle / last), either array, including sizes
    # that NumPy would silently broadcast (one entry, a 0-d scalar, one bare 3x3 matrix)
    shapes = ["plus1", "minus1", "one", "scalar", "single_matrix", "empty"]
    for i in range(ctx.share(ctx.scale(108, 5400))):
        rng = ctx.rng(3, i)
        j = i * ctx.nshards + ctx.shard   # global index: the 54 combinations are spread over the shards, not repeated in each
        yield {"kind": "reject", "seed": int(rng.integers(1 << 31)), "fault": "size_mismatch", "where": ["first", "middle", "last"][j % 3],
               "array": ["fractions", "orientations", "both"][(j // 3) % 3], "shape": shapes[(j // 9) % 6]}


def special_floats(rng, shape):
    a = rng.normal(size=shape)
    flat = a.reshape(-1)
    k = max(1, flat.size // 6)
    idx = rng.choice(flat.size, size=min(flat.size, k), replace=False)
    specials = np.array([np.nan, np.inf, -np.inf, -0.0, 0.0, 5e-324, 1e-320, 1.7976931348623157e308, -1e-300])
    flat[idx] = rng.choice(specials, size=len(idx))
    if flat.size > 2:
        # NaN with a payload
        flat[int(rng.integers(flat.size))] = np.frombuffer(np.uint64(0x7FF8000000000123).tobytes(), dtype=np.float64)[0]
    return a


def make_mineral(pydrex, rng, hostile=True):
    n = int(rng.choice([1, 2, 7, 300], p=[0.15, 0.25, 0.45, 0.15]))
    steps = int(rng.choice([1, 2, 5, 40], p=[0.3, 0.3, 0.3, 0.1]))
    phase, fabric, regime = int(rng.integers(2)), int(rng.integers(6)), int(rng.integers(8))
    if rng.random() < 0.5:
        O = [gen.haar(rng, n) for _ in range(steps)]
        Fv = [rng.dirichlet(np.ones(n)) for _ in range(steps)]
    else:
        O = [special_floats(rng, (n, 3, 3)) for _ in range(steps)]
        Fv = [special_floats(rng, (n,)) for _ in range(steps)]
    m = pydrex.Mineral(phase=phase, fabric=fabric, regime=regime, n_grains=n, fractions_init=Fv[0].copy(), orientations_init=O[0].copy())
    for o, f in zip(O[1:], Fv[1:]):
        m.orientations.append(o.copy())
        m.fractions.append(f.copy())
    model = {"meta": (phase, fabric, regime), "n": n, "orientations": [o.copy() for o in O], "fractions": [f.copy() for f in Fv]}
    return m, model


def same_arrays(got, exp):
    return len(got) == len(exp) and all(
        np.asarray(g).dtype == np.float64 and np.asarray(g).shape == e.shape and np.asarray(g).tobytes() == e.tobytes()
        for g, e in zip(got, exp))


def compare(m, model):
    probs = []
    if (int(m.phase), int(m.fabric), int(m.regime)) != tuple(model["meta"]):
        probs.append(f"meta {(int(m.phase), int(m.fabric), int(m.regime))} != {model['meta']}")
    if int(m.n_grains) != model["n"]:
        probs.append(f"n_grains {m.n_grains} != {model['n']}")
    if len(m.orientations) != len(model["orientations"]) or len(m.fractions) != len(model["fractions"]):
        probs.append(f"snapshots {len(m.orientations)}/{len(m.fractions)} != {len(model['orientations'])}")
    if not same_arrays(m.orientations, model["orientations"]):
        probs.append("orientations differ")
    if not same_arrays(m.fractions, model["fractions"]):
        probs.append("fractions differ")
    return probs


def check_case(ctx, case):
    pydrex = bootstrap.import_pydrex()
    scratch = os.path.join(os.environ.get("PVMON_SCRATCH", "."), f"c17-{os.getpid()}")
    shutil.rmtree(scratch, ignore_errors=True)
    os.makedirs(scratch)
    try:
        if case["kind"] == "archive":
            _archive(ctx, pydrex, case, scratch)
        else:
            _reject(ctx, pydrex, case, scratch)
    finally:
        shutil.rmtree(scratch, ignore_errors=True)


def _archive(ctx, pydrex, case, scratch):
    rng = np.random.default_rng([int(case["seed"]), 5])
    path = os.path.join(scratch, "archive.npz")
    model = {}
    k = case["n_minerals"]
    # distinct postfixes, deliberately including ones that are underscore-delimited tails / heads / substrings of
    # each other (the suite's own naming style is M0_X0_L5): a lookup by anything but the exact key confuses them
    pool = ["a", "b2", "ol", "en", "x_y", "p-1", "0", "17", "Zz", "m_3_t", "postfix", "fractions", "meta",
            "L5", "M0_X0_L5", "M10_X0_L5", "X0_L5", "1", "olivine_1", "enstatite_1", "11", "1_1", "y", "x", "a_b2", "b2_a", "M0", "M0_X0"]
    postfixes = [str(p) for p in rng.choice(pool, size=k, replace=False)]
    if rng.random() < 0.35:
        # integer indices and the empty string are legal, distinct postfixes too (0 and "" are falsy but not None)
        specials = [0, 1, 2, 17, ""]
        take = int(rng.integers(1, min(k, 4) + 1))
        chosen = [specials[int(i)] for i in rng.permutation(len(specials))[:take]]
        keep = [p for p in postfixes if p not in {str(c) for c in chosen}][: k - take]
        mixed = chosen + keep
        postfixes = [mixed[int(i)] for i in rng.permutation(len(mixed))]
        k = len(postfixes)
    elif k >= 2 and rng.random() < 0.6:
        fam = [["L5", "M0_X0_L5", "X0_L5", "M10_X0_L5"], ["1", "olivine_1", "1_1", "11", "enstatite_1"], ["x", "x_y", "y"], ["a", "a_b2", "b2", "b2_a"],
               ["M0", "M0_X0", "M0_X0_L5"]][int(rng.integers(5))]
        take = min(k, len(fam))
        postfixes[:take] = [str(p) for p in rng.permutation(fam)[:take]]
        postfixes = list(dict.fromkeys(postfixes))
        while len(postfixes) < k:
            c = str(rng.choice(pool))
            if c not in postfixes:
                postfixes.append(c)
    minerals = [make_mineral(pydrex, rng) for _ in range(case["n_minerals"] + 1)]
    ops = []
    if case["whole_first"]:
        m, mod = minerals[k]
        m.save(path)
        model[None] = mod
        ops.append("save(whole)")
    order = rng.permutation(k)
    for j in order:
        m, mod = minerals[j]
        before = {pf: mm for pf, mm in model.items()}
        m.save(path, postfix=postfixes[j])
        model[postfixes[j]] = mod
        ops.append(f"save(postfix={postfixes[j]})")
    ctx.case(case, nontrivial=len(model) >= 2 or any(len(mm["orientations"]) >= 2 for mm in model.values()))
    ctx.count("archive_entries", len(model))
    # conservation: key set
    with np.load(path) as npz:
        keys = set(npz.files)
    exp = set()
    for pf in model:
        for base in ("meta", "fractions", "orientations"):
            exp.add(base if pf is None else f"{base}_{pf}")
    ctx.check("archive_keys_conserved", keys == exp, case, got=sorted(keys), expected=sorted(exp), ops=ops)
    # loads in random order through both loaders
    keys_ = list(model.keys())
    for pf in [keys_[int(i)] for i in rng.permutation(len(keys_))]:
        mod = model[pf]
        try:
            m1 = pydrex.Mineral.from_file(path, postfix=pf)
            pr = compare(m1, mod)
            ctx.check("from_file_restores_exactly", not pr, case, postfix=pf, problems=pr, ops=ops)
        except Exception as e:
            ctx.check("from_file_restores_exactly", False, case, key=f"from_file_raises/{type(e).__name__}", postfix=pf, exc=str(e)[:150], ops=ops)
        try:
            recv = pydrex.Mineral(n_grains=int(rng.choice([1, 5, 50])), seed=1)
            recv.load(path, postfix=pf)
            pr = compare(recv, mod)
            ctx.check("load_restores_exactly", not pr, case, postfix=pf, problems=pr, ops=ops)
        except Exception as e:
            ctx.check("load_restores_exactly", False, case, key=f"load_raises/{type(e).__name__}", postfix=pf, exc=str(e)[:150], ops=ops)
    # a loaded mineral saved again reproduces the same bytes of arrays (idempotence of the round trip)
    pf0 = list(model.keys())[0]
    try:
        m1 = pydrex.Mineral.from_file(path, postfix=pf0)
        p2 = os.path.join(scratch, "again.npz")
        m1.save(p2)
        m2 = pydrex.Mineral.from_file(p2)
        ctx.check("resave_roundtrip", not compare(m2, model[pf0]), case)
    except Exception as e:
        ctx.check("resave_roundtrip", False, case, key=f"resave_raises/{type(e).__name__}", exc=str(e)[:150], postfix=pf0, ops=ops)
    if len(ctx.samples) < 3:
        ctx.sample(case, ops=ops, keys=sorted(keys)[:12])


def _listing(d):
    out = []
    for root, dirs, files in os.walk(d):
        for f in files:
            p = os.path.join(root, f)
            out.append((os.path.relpath(p, d), os.path.getsize(p)))
    return sorted(out)


def _reject(ctx, pydrex, case, scratch):
    rng = np.random.default_rng([int(case["seed"]), 7])
    m, mod = make_mineral(pydrex, rng)
    good = os.path.join(scratch, "good.npz")
    m.save(good)
    m.save(good, postfix="keep")
    f = case["fault"]
    path = os.path.join(scratch, "target.npz")
    postfix = None
    if rng.random() < 0.5:
        postfix = "pf"
    fn = None
    if f == "snapshot_counts":
        m.fractions.append(m.fractions[-1].copy())
        fn = lambda: m.save(path, postfix=postfix)
    elif f == "n_grains":
        m.n_grains = m.n_grains + int(rng.choice([1, 3]))
        fn = lambda: m.save(path, postfix=postfix)
    elif f == "ragged":
        n = m.n_grains
        m.orientations.append(gen.haar(rng, n + 1))
        m.fractions.append(np.full(n + 1, 1 / (n + 1)))
        fn = lambda: m.save(path, postfix=postfix)
    elif f == "size_mismatch":
        n = m.n_grains
        while len(m.fractions) < 3:
            m.orientations.append(gen.haar(rng, n))
            m.fractions.append(np.full(n, 1.0 / n))
        k = {"first": 0, "middle": len(m.fractions) // 2, "last": len(m.fractions) - 1}[case["where"]]
        sh = case["shape"]
        if n == 1 and sh in ("one", "minus1", "empty"):
            sh = "plus1"
        cnt = {"plus1": n + 1, "minus1": n - 1, "one": 1, "empty": 0}.get(sh)
        if case["array"] in ("fractions", "both"):
            m.fractions[k] = np.float64(1.0) if sh in ("scalar", "single_matrix") else np.full(cnt, 1.0 / max(cnt, 1))
        if case["array"] in ("orientations", "both"):
            m.orientations[k] = gen.haar(rng, 1)[0] if sh in ("scalar", "single_matrix") else gen.haar(rng, max(cnt, 1))[:cnt]
        f = f"size_mismatch/{case['array']}/{sh}"
        fn = lambda: m.save(path, postfix=postfix)
    elif f == "name_noext":
        fn = lambda: m.save(os.path.join(scratch, "x"), postfix=postfix)
    elif f == "name_dat":
        fn = lambda: m.save(os.path.join(scratch, "x.dat"))
    elif f == "name_dat_postfix":
        fn = lambda: m.save(os.path.join(scratch, "x.dat"), postfix="pf")
    elif f == "name_bak":
        fn = lambda: m.save(os.path.join(scratch, "x.npz.bak"), postfix=postfix)
    elif f == "load_non_npz":
        shutil.copy(good, os.path.join(scratch, "copy.dat"))
        fn = lambda: pydrex.Mineral(n_grains=3).load(os.path.join(scratch, "copy.dat"))
    elif f == "from_file_non_npz":
        shutil.copy(good, os.path.join(scratch, "copy.zip"))
        fn = lambda: pydrex.Mineral.from_file(os.path.join(scratch, "copy.zip"))
    before = _listing(scratch)
    ctx.case(case)
    ctx.cls(f"fault={f}")
    try:
        fn()
        ctx.check("rejected_without_writing", False, case, key=f"reject/{f}/accepted", listing=_listing(scratch))
    except ValueError:
        after = _listing(scratch)
        ctx.check("rejected_without_writing", after == before, case, key=f"reject/{f}/wrote_files", before=before, after=after)
    except Exception as e:
        ctx.check("rejected_without_writing", False, case, key=f"reject/{f}/wrong_exception", exc=f"{type(e).__name__}: {str(e)[:120]}")
    # the pre-existing good archive is still intact
    try:
        mk = pydrex.Mineral.from_file(good, postfix="keep")
        ctx.check("existing_archive_intact_after_rejection", len(mk.orientations) >= 1, case)
    except Exception as e:
        ctx.check("existing_archive_intact_after_rejection", False, case, exc=str(e)[:100])


def run(ctx):
    bootstrap.import_pydrex()
    for case in gen_cases(ctx):
        check_case(ctx, case)
