"""C05 -- texture depends on the strain path, not on the strain rate (paired executions).

The same history is driven at rate scale 1 and at rate scale k (velocity gradient multiplied by k,
every time stamp divided by k, time-dependence and pathline compressed accordingly); every stored
snapshot and the returned F are compared.
"""
from __future__ import annotations

import copy

import numpy as np

from .. import bootstrap, drive

ID = "C05"
RULE = ("case = one base update history x one rate factor k in [1e-16, 1e3], executed twice (k=1 and k); distinct = "
        "descriptor digest; non-trivial = k != 1 and the base texture changed by more than 1e-6")
ASSUMPTIONS = ["requirement is 'within solver tolerance' 5e-3 + 1e-3*(N + 2*strain); agreement above 1e-9 prints a NOTE (regression watermark), not a violation"]
TOLERANCES = {"integrated": "5e-3 + 1e-3*(N + 2*strain)", "watermark": 1e-9}
REQUIRED_MONITORS = ["rescale:textures_related", "rescale:deformation_gradient_related"]

KS = [1e-16, 1e-15, 1e-9, 1e-4, 0.37, 7.3, 1e3]


def plan(tier):
    if tier == "quick":
        return [{"mode": "jit", "timeout": 900}] * 6
    return [{"mode": "jit", "timeout": 3400}] * 16


def gen_cases(ctx):
    nb = ctx.share(ctx.scale(48, 1600))
    for i in range(nb):
        rng = ctx.rng(1, i)
        base = drive.random_history_case(rng)
        base["n"] = int(rng.choice([2, 10, 30, 60]))
        base["N"] = int(rng.choice([1, 4, 10, 40], p=[0.3, 0.4, 0.25, 0.05]))
        base["F0"] = str(rng.choice(["I", "random"]))
        base["t0"] = float(rng.choice([0.0, 0.5, 1e4]))
        if rng.random() < 0.3 and base["N"] >= 2:
            base["refine"] = float(rng.choice([1e-6, 1e-8, 1e-10]))   # a very short interval: short in *time* at fast rates
        if rng.random() < 0.3:
            # strain paths with a large dynamic range of rates, run at geological speed, reach absolute
            # strain rates far below 1e-15 1/s -- exactly where an absolute constant in the scaling would bite
            base["L"]["mode"] = "multirate"
            base["L"]["rho"] = float(rng.choice([1e-2, 1e-3, 1e-4], p=[0.2, 0.4, 0.4]))
        ks = ([float(rng.choice([1e-16, 1e-15]))] + list(rng.choice(KS[2:], size=ctx.scale(2, 4), replace=False))
              + [float(10.0 ** rng.uniform(-16, 3))] + ([float(rng.choice([1e2, 1e3]))] if base.get("refine") else []))
        for k in ks:
            c = copy.deepcopy(base)
            c["kind"] = "rescale"
            c["k"] = float(k)
            yield c


def check_case(ctx, case):
    pydrex = bootstrap.import_pydrex()
    mon = ctx.extra.get("_mon")
    if mon is None:
        mon = drive.Monitors(pydrex, ctx).install()
        ctx.extra["_mon"] = mon
    mon.case = case
    c1 = copy.deepcopy(case)
    c1["L"]["k"] = 1.0
    c2 = copy.deepcopy(case)
    c2["L"]["k"] = case["k"]
    H1, H2 = drive.History(pydrex, c1), drive.History(pydrex, c2)
    eps = [H1.strain_upto(i) for i in range(H1.N)]

    def tol_of(kk):
        return 5e-3 + 1e-3 * (kk + 2 * eps[kk - 1])

    m1, m2 = H1.mineral(), H1.mineral()
    pr = drive.PairRun(ctx, pydrex, mon, case, H1, "rescale")
    ok = pr.compare(m1, m2, {}, {"Lfun": H2.Lfun, "posfun": H2.posfun, "ts": H2.ts},
                    mapA=lambda A: A, mapF=lambda F: F, tol_of=tol_of, exact=True,
                    fresh=lambda: (H1.mineral(), H1.mineral()))
    moved = float(np.abs(m1.orientations[-1] - m1.orientations[0]).max()) if len(m1.orientations) > 1 else 0.0
    ctx.case(case, nontrivial=bool(ok and case["k"] != 1.0 and moved > 1e-6))
    ctx.cls("k<1e-12" if case["k"] < 1e-12 else "k<1e-3" if case["k"] < 1e-3 else "k<10" if case["k"] < 10 else "k>=10")
    ctx.cls(f"L={case['L']['mode']}")
    if len(ctx.samples) < 4:
        ctx.sample(case, texture_change=moved)


def run(ctx):
    bootstrap.import_pydrex()
    for case in gen_cases(ctx):
        check_case(ctx, case)
    mon = ctx.extra.pop("_mon", None)
    if mon is not None:
        ctx.count("rhs_evaluations_monitored", mon.n_rhs)
        mon.remove()
    w = max(ctx.extrema.get("rescale:dA", 0.0), ctx.extrema.get("rescale:df", 0.0))
    if w > 1e-9:
        ctx.note(f"C05 regression watermark: rescaled runs differ by {w:.3g} (> 1e-9 rounding-level agreement of the "
                 "present code; still within the stated solver tolerance)")
