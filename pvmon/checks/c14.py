"""C14 -- M-index: range, invariances, limits, theory normalisation, and the pooled variant.

(1) relational oracles on misorientation_index (grain permutation, frame rotation, symmetry
relabelling, uniform ~ 0, single orientation ~ 1, range) per lattice system; (2) an independent
SciPy reference M-index for the triclinic system; (3) a *defect-aware* model that reproduces the
pinned tree's operator algebra (cross term dropped in the quaternion product, 4x4 "reflection"
matrices, float32 storage) -- used only to decide whether a failing sub-oracle on a lattice system
listed in known_findings.json is *explained* by the recorded defect; (4) Riemann sum of the
theoretical density; (5) schedule monitor on misorientation_indices: the per-snapshot function is
replaced (before the pool forks) by a wrapper that sleeps a pseudo-random 0-40 ms and logs
(pid, snapshot, t_start, t_end) to an O_APPEND file; results must equal the serial values exactly and
in order for every worker count and externally supplied pool, and the run must have *observed*
out-of-order completions.
"""
from __future__ import annotations

import hashlib
import os
import time

import numpy as np
from scipy.spatial.transform import Rotation

from .. import bootstrap, drive, gen

ID = "C14"
RULE = ("case = one (lattice system, texture) on which the relations are evaluated, one uniform/single-orientation limit case, "
        "one theory-integral case, or one pooled run (stack length x worker count / external pool) under injected delays; "
        "distinct = descriptor digest; non-trivial = texture with >= 10 grain pairs (relations) / pooled run with >= 2 snapshots")
ASSUMPTIONS = [
    "statistical limits use fixed thresholds (uniform: M < 0.1 for N >= 400; single orientation: M > 0.95)",
    "relations are compared within 3/n_pairs (one pair moving across a 1-degree bin edge changes M by <= 1/n_pairs)",
    "textures with exactly degenerate misorientation angles (axis-aligned grains: 90/120/180 degrees sit exactly on 1-degree bin edges, "
    "where the histogram is discontinuous under float32 rounding) are excluded from the relations",
    "known findings K5-K9 exempt a failing sub-oracle only when the defect-aware model reproduces the observed values within 3/n_pairs (NaN == NaN)",
]
TOLERANCES = {"relations": "3/n_pairs + 1e-9", "range": 1e-3, "theory_integral": 1e-3}
REQUIRED_MONITORS = ["range", "permutation_invariant", "frame_rotation_invariant", "uniform_near_zero", "single_near_one",
                     "theory_integrates_to_one", "pool_results_equal_serial_in_order", "triclinic_equals_reference"]

NONTRIVIAL_OPS = ("monoclinic", "orthorhombic", "tetragonal", "hexagonal")
RECORDED_INTEGRALS = {"tetragonal": 0.945, "hexagonal": 0.977}


def plan(tier):
    if tier == "quick":
        nrel, npool, to = 5, 1, 900
    else:
        nrel, npool, to = 14, 2, 3400
    return ([{"mode": "jit", "timeout": to, "part": "relations", "irel": k, "nrel": nrel} for k in range(nrel)]
            + [{"mode": "jit", "timeout": to, "part": "pool", "ipool": k, "npool": npool} for k in range(npool)])


# ---------------------------------------------------------------------------------------------
# models


def _ops_for(name):
    I = np.array([0, 0, 0, 1.0])

    def rv(axis, ang):
        return Rotation.from_rotvec(ang * np.asarray(axis, float)).as_quat()

    ax = [[0, 0, 1], [0, 1, 0], [1, 0, 0]]
    if name == "triclinic":
        return [I]
    if name in ("monoclinic", "orthorhombic"):
        return [I] + [rv(a, np.pi) for a in ax] + [np.diag(x).astype(float) for x in ([1, -1, -1, 1], [1, -1, 1, -1], [1, 1, -1, -1])]
    if name == "rhombohedral":
        return [I] + [rv(a, i * np.pi / 3) for a in ax for i in (1, 2)]
    if name == "tetragonal":
        return [I] + [rv(a, i * np.pi / 2) for a in ax for i in (1, 2, 3)]
    if name == "hexagonal":
        return [I] + [rv(a, i * np.pi / 3) for a in ax for i in (1, 2)] + [rv(a, i * np.pi / 6) for a in ax for i in (1, 3, 5)]
    raise ValueError(name)


def defect_model_M(pydrex, A, system):
    """Reproduces the pinned tree's (defective) operator algebra; classification use only."""
    stats = pydrex.stats
    thmax = stats._max_misorientation(system)
    q = Rotation.from_matrix(np.asarray(A).copy()).as_quat()
    ops = _ops_for(system.name)
    Q = np.empty((len(ops), len(q), 4), dtype=np.float32)
    for k, o in enumerate(ops):
        if o.shape == (4, 4):
            Q[k] = (q @ o.T).astype(np.float32)
        else:
            v = o[3] * q[:, :3] + q[:, 3:4] * o[:3]  # cross term dropped, as in utils.quat_product
            w = o[3] * q[:, 3] - q[:, :3] @ o[:3]
            Q[k] = np.column_stack([v, w]).astype(np.float32)
    iu = np.triu_indices(len(q), 1)
    best = np.full(len(iu[0]), np.inf)
    for a in range(len(ops)):
        for b in range(len(ops)):
            d = np.sum(Q[a][iu[0]] * Q[b][iu[1]], axis=1)
            ang = 2 * np.rad2deg(np.arccos(np.abs(np.clip(d, -1.0, 1.0))))
            best = np.minimum(best, ang)
    with np.errstate(all="ignore"):
        cnt, edges = np.histogram(best, bins=thmax, range=(0, thmax), density=True)
    theory = np.array([stats.misorientations_random(edges[i], edges[i + 1], system) for i in range(len(cnt))])
    return float((thmax / (2 * len(cnt))) * np.sum(np.abs(theory - cnt)))


def reference_M_triclinic(pydrex, A):
    """Independent M-index for the triclinic system (no symmetry): SciPy rotation algebra, float64."""
    R = Rotation.from_matrix(np.asarray(A))
    iu = np.triu_indices(len(A), 1)
    ang = np.rad2deg((R[iu[0]] * R[iu[1]].inv()).magnitude())
    cnt, edges = np.histogram(ang, bins=180, range=(0, 180), density=True)
    lo, hi = np.deg2rad(edges[:-1]), np.deg2rad(edges[1:])
    # Mackenzie/Grimmer triclinic density (1/180)(1 - cos theta) per degree, averaged over the bin edges
    theory = 0.5 * ((1 - np.cos(lo)) + (1 - np.cos(hi))) / 180.0
    return float(0.5 * np.sum(np.abs(theory - cnt)))


def same(a, b, tol):
    if np.isnan(a) and np.isnan(b):
        return True
    return bool(abs(a - b) <= tol)


# ---------------------------------------------------------------------------------------------


def relabel_ops(name):
    if name == "monoclinic":
        return [np.diag([-1.0, 1.0, -1.0])]
    if name == "orthorhombic":
        return gen.TWOFOLDS
    if name == "tetragonal":
        return [Rotation.from_euler("z", k * 90, degrees=True).as_matrix() for k in (1, 2, 3)] + [gen.TWOFOLDS[0], gen.TWOFOLDS[1]]
    if name == "hexagonal":
        return [Rotation.from_euler("z", k * 60, degrees=True).as_matrix() for k in (1, 2, 3, 4, 5)] + [gen.TWOFOLDS[0]]
    return []


def gen_cases(ctx):
    part = ctx.spec.get("part", "relations")
    if part == "pool":
        yield from pool_cases(ctx)
        return
    names = ["triclinic", "monoclinic", "orthorhombic", "tetragonal", "hexagonal"]
    nrel = ctx.scale(40, 4000)
    # distribute over the relation shards
    irel, nrs = ctx.spec.get("irel", 0), ctx.spec.get("nrel", 1)
    for i in range(nrel):
        if i % nrs != irel:
            continue
        rng = ctx.rng(1, i)
        name = names[i % 5] if i < 25 else str(rng.choice(names, p=[0.4, 0.15, 0.25, 0.1, 0.1]))
        nmax = {"triclinic": 300, "monoclinic": 100, "orthorhombic": 100, "tetragonal": 60, "hexagonal": 50}[name]
        n = int(rng.choice([2, 3, 12, 40, nmax]))
        yield {"kind": "relations", "system": name, "n": n, "tex": str(rng.choice(["random", "cluster_wide", "cluster", "cluster_tight", "girdle"])),
               "seed": int(rng.integers(1 << 31))}
    # aggregates of more than 2**20 grain pairs (the property covers any number of orientations; work that is split into
    # blocks only shows above such sizes), listed with a tight cluster at the end so that the listing is not exchangeable
    big = [("triclinic", 1449)] if ctx.tier == "quick" else [("triclinic", 1449), ("triclinic", 1500), ("triclinic", 2000),
                                                             ("triclinic", 1777), ("orthorhombic", 1449), ("monoclinic", 1450)]
    for j, (name, n) in enumerate(big):
        if (j + 1) % nrs == irel:
            yield {"kind": "relations", "system": name, "n": n, "tex": "random", "sorted_cluster": 32, "seed": 7000 + j + ctx.seed}
    for j in range(ctx.scale(6, 60)):
        if j % nrs == irel:
            rng = ctx.rng(5, j)
            yield {"kind": "halfturn", "system": "triclinic", "seed": int(rng.integers(1 << 31)), "k": int(rng.choice([1, 2, 5, 20])),
                   "extra": int(rng.choice([0, 0, 1, 3])), "axes": int(rng.choice([1, 3]))}
    if irel == 0:
        for name in names + ["rhombohedral"]:
            yield {"kind": "theory", "system": name}
        yield {"kind": "rhombohedral_call", "system": "rhombohedral", "seed": 3}
    lim = [("triclinic", 400), ("orthorhombic", 400), ("monoclinic", 150), ("tetragonal", 100), ("hexagonal", 80)]
    if ctx.tier == "thorough":
        lim += [("triclinic", 2000), ("triclinic", 1000), ("orthorhombic", 800), ("orthorhombic", 600)]
    for j, (name, N) in enumerate(lim):
        if j % nrs == irel:
            yield {"kind": "uniform", "system": name, "n": N, "seed": 100 + j + ctx.seed}
    for j, name in enumerate(names):
        if (j + 2) % nrs == irel:
            yield {"kind": "single", "system": name, "n": 30, "seed": 200 + j + ctx.seed}


def _system(pydrex, name):
    return getattr(pydrex.geometry.LatticeSystem, name)


class IndexRaised(Exception):
    pass


_CTX = {}


def _M(pydrex, A, system):
    try:
        with np.errstate(all="ignore"):
            A = np.ascontiguousarray(A)
            ctx = _CTX.get("ctx")
            if ctx is not None and len(A) % 2 == 0:
                A = ctx.buf("A", A)
            return float(pydrex.diagnostics.misorientation_index(A, system))
    except AssertionError:
        raise
    except Exception as e:
        raise IndexRaised(f"{type(e).__name__}: {str(e)[:150]}") from e


def check_case(ctx, case):
    pydrex = bootstrap.import_pydrex()
    _CTX["ctx"] = ctx
    try:
        return {"relations": _relations, "theory": _theory, "uniform": _uniform, "single": _single,
                "rhombohedral_call": _rhombo, "pool": _pool, "halfturn": _halfturn}[case["kind"]](ctx, pydrex, case)
    except IndexRaised as e:
        ctx.check("misorientation_index_returns", False, case, key=f"index_raises/{case.get('system')}", exc=str(e))
    except AssertionError as e:
        ctx.check("misorientation_index_returns", False, case, key=f"index_raises/AssertionError/{case.get('system')}", exc="AssertionError")


def _classify(ctx, pydrex, sub, ok, case, name, system, textures, values, kkey, **obs):
    """Record sub-oracle; on failure for a system with the defective operator algebra, ask the defect model."""
    if ok:
        ctx.check(sub, True, case)
        return
    key, explained = sub, None
    if name in NONTRIVIAL_OPS:
        key = kkey
        explained = True
        for A, v in zip(textures, values):
            npairs = len(A) * (len(A) - 1) // 2
            mv = defect_model_M(pydrex, A, system)
            if not same(v, mv, 3.0 / npairs + 1e-9):
                explained = False
                obs["model_mismatch"] = [v, mv]
        ctx.count(f"defect_model_evaluations")
    ctx.check(sub, False, case, key=key, explained=explained, system=name, **obs)


def _relations(ctx, pydrex, case):
    name = case["system"]
    system = _system(pydrex, name)
    rng = np.random.default_rng([int(case["seed"]), 5])
    n = case["n"]
    _, A = gen.texture(rng, n, case["tex"])
    if case.get("sorted_cluster"):
        k = int(case["sorted_cluster"])
        A[-k:] = gen.texture(rng, k, "cluster_tight")[1]
        ctx.cls("more_than_2**20_pairs" if n * (n - 1) // 2 > 1 << 20 else "sorted_cluster")
    npairs = n * (n - 1) // 2
    tol = 3.0 / npairs + 1e-9
    nontriv = npairs >= 10
    ctx.case(case, nontrivial=nontriv)
    ctx.cls(f"system={name}")
    M0 = _M(pydrex, A, system)
    _classify(ctx, pydrex, "range", (not np.isnan(M0)) and -1e-3 <= M0 <= 1 + 1e-3, case, name, system, [A], [M0],
              "range/non-trivial-operator-set", M=M0)
    perm = rng.permutation(n)
    Mp = _M(pydrex, A[perm], system)
    ctx.check("permutation_invariant", same(M0, Mp, tol), case, M=M0, Mperm=Mp, system=name)
    if name == "triclinic":
        ref = reference_M_triclinic(pydrex, A)
        ctx.extreme("triclinic_vs_reference*npairs", abs(M0 - ref) * npairs)
        ctx.check("triclinic_equals_reference", same(M0, ref, 5.0 / npairs + 2e-3), case, M=M0, ref=ref)
    if nontriv:
        qk, Q = drive.hostile_rotation(rng)
        if qk in ("identity", "tiny"):
            qk, Q = "haar", gen.haar(rng)
        Aq = A @ Q.T
        Mq = _M(pydrex, Aq, system)
        ctx.extreme(f"rotation_diff[{name}]", abs(M0 - Mq) if not (np.isnan(M0) or np.isnan(Mq)) else 0.0)
        _classify(ctx, pydrex, "frame_rotation_invariant", same(M0, Mq, tol), case, name, system, [A, Aq], [M0, Mq],
                  "frame_rotation/non-trivial-operator-set", M=M0, Mrot=Mq, Q=qk)
        ops = relabel_ops(name)
        if ops:
            S = np.stack([ops[int(k)] if fl else np.eye(3) for k, fl in zip(rng.integers(len(ops), size=n), rng.random(n) < 0.6)])
            As = S @ A
            Ms = _M(pydrex, As, system)
            _classify(ctx, pydrex, "symmetry_relabel_invariant", same(M0, Ms, tol), case, name, system, [A, As], [M0, Ms],
                      "symmetry_relabel/non-trivial-operator-set", M=M0, Msym=Ms)
    if len(ctx.samples) < 3 and nontriv:
        ctx.sample(case, M=M0, M_permuted=Mp)


def _halfturn(ctx, pydrex, case):
    """Grains related by half turns: every pair angle is exactly 0 or exactly the maximum admissible 180 degrees
    (triclinic).  Value and range are compared with the independent reference; no rotation relation here."""
    system = _system(pydrex, "triclinic")
    rng = np.random.default_rng([int(case["seed"]), 9])
    base = Rotation.random(random_state=int(rng.integers(1 << 31)))
    half = [Rotation.from_rotvec(np.pi * np.eye(3)[a]) for a in range(case["axes"])]
    rots = [base] * case["k"]
    for h in half:
        rots += [base * h] * case["k"]
    A = np.stack([r.as_matrix() for r in rots] + [Rotation.random(random_state=int(rng.integers(1 << 31))).as_matrix() for _ in range(case["extra"])])
    n = len(A)
    npairs = n * (n - 1) // 2
    ctx.case(case, nontrivial=True)
    M = _M(pydrex, A, system)
    ref = reference_M_triclinic(pydrex, A)
    ctx.check("halfturn_range", (not np.isnan(M)) and -1e-3 <= M <= 1 + 1e-3, case, M=M)
    ctx.check("halfturn_equals_reference", same(M, ref, 5.0 / npairs + 2e-3), case, M=M, ref=ref, n=n)
    perm = rng.permutation(n)
    ctx.check("halfturn_permutation_invariant", same(M, _M(pydrex, A[perm], system), 3.0 / npairs + 1e-9), case)


def _theory(ctx, pydrex, case):
    name = case["system"]
    system = _system(pydrex, name)
    stats = pydrex.stats
    ctx.case(case)
    try:
        th = stats._max_misorientation(system)
        tot = float(sum(stats.misorientations_random(i, i + 1, system) for i in range(th)))
    except AssertionError as e:
        import traceback

        tb = "".join(traceback.format_tb(e.__traceback__))
        ctx.check("theory_integrates_to_one", False, case, key=f"raises/{name}/assert_false",
                  explained=(name == "rhombohedral" and "misorientations_random" in tb), exc="AssertionError")
        return
    except Exception as e:
        ctx.check("theory_integrates_to_one", False, case, key=f"raises/{type(e).__name__}", exc=str(e)[:100])
        return
    ok = abs(tot - 1) <= 1e-3
    key, explained = "theory_integrates_to_one", None
    if not ok and name in RECORDED_INTEGRALS:
        key = "theory_integral/tetragonal-hexagonal"
        explained = abs(tot - RECORDED_INTEGRALS[name]) <= 2e-3
    ctx.check("theory_integrates_to_one", ok, case, key=key, explained=explained, integral=tot, system=name)
    ctx.extreme(f"theory_integral[{name}]", tot)


def _rhombo(ctx, pydrex, case):
    system = _system(pydrex, "rhombohedral")
    A = Rotation.random(12, random_state=case["seed"]).as_matrix()
    ctx.case(case)
    try:
        M = _M(pydrex, A, system)
        ctx.check("range", -1e-3 <= M <= 1 + 1e-3, case, M=M, system="rhombohedral")
    except AssertionError as e:
        import traceback

        tb = "".join(traceback.format_tb(e.__traceback__))
        ctx.check("rhombohedral_index_returns", False, case, key="raises/rhombohedral/assert_false",
                  explained="misorientations_random" in tb, exc="AssertionError")
    except Exception as e:
        ctx.check("rhombohedral_index_returns", False, case, key=f"raises/{type(e).__name__}", exc=str(e)[:100])


def _uniform(ctx, pydrex, case):
    name = case["system"]
    system = _system(pydrex, name)
    A = Rotation.random(case["n"], random_state=int(case["seed"])).as_matrix()
    M = _M(pydrex, A, system)
    ctx.case(case)
    ctx.extreme(f"uniform_M[{name}]", M)
    ok = (not np.isnan(M)) and M <= 0.1
    kkey = "uniform_near_zero/monoclinic" if name == "monoclinic" else "uniform_near_zero/tetragonal-hexagonal"
    if name in ("triclinic", "orthorhombic"):
        ctx.check("uniform_near_zero", ok, case, M=M, system=name, n=case["n"])
    else:
        _classify(ctx, pydrex, "uniform_near_zero", ok, case, name, system, [A], [M], kkey, M=M, n=case["n"])
    _classify(ctx, pydrex, "range", (not np.isnan(M)) and -1e-3 <= M <= 1 + 1e-3, case, name, system, [A], [M],
              "range/non-trivial-operator-set", M=M)
    ctx.sample(case, M=M)


def _single(ctx, pydrex, case):
    name = case["system"]
    system = _system(pydrex, name)
    A = np.repeat(Rotation.random(random_state=int(case["seed"])).as_matrix()[None], case["n"], 0)
    M = _M(pydrex, A, system)
    ctx.case(case)
    ctx.minimum(f"single_M[{name}]", M)
    ok = (not np.isnan(M)) and 0.95 <= M <= 1 + 1e-3
    _classify(ctx, pydrex, "single_near_one", ok, case, name, system, [A], [M], "single_near_one/non-trivial-operator-set", M=M)


# ---------------------------------------------------------------------------------------------
# schedule monitor for the batched variant

_ORIG = {}


def misorientation_index(orientations, system, bins=None):
    """Delay-injecting wrapper (installed as pydrex.diagnostics.misorientation_index before forking)."""
    arr = np.ascontiguousarray(orientations)
    h = int(hashlib.sha1(arr.tobytes()).hexdigest()[:8], 16)
    t0 = time.monotonic()
    time.sleep(((h >> 3) % 41) / 1000.0)
    out = _ORIG["f"](orientations, system, bins)
    fd = os.open(os.environ["PVMON_POOL_LOG"], os.O_WRONLY | os.O_APPEND | os.O_CREAT)
    try:
        os.write(fd, f"{os.getpid()} {h} {t0} {time.monotonic()}\n".encode())
    finally:
        os.close(fd)
    return out


misorientation_index.__module__ = "pydrex.diagnostics"
misorientation_index.__qualname__ = "misorientation_index"


def pool_cases(ctx):
    lengths = [1, 2, 7, 33]
    ncs = [1, 2, 3, 5, 8, 16] if ctx.tier == "quick" else list(range(1, 17))
    k = 0
    for L in lengths:
        for nc in ncs + [None]:
            k += 1
            if k % ctx.spec.get("npool", 1) != ctx.spec.get("ipool", 0):
                continue
            yield {"kind": "pool", "length": L, "ncpus": nc, "pool": None, "system": "triclinic" if k % 3 else "orthorhombic",
                   "seed": 1000 + k + ctx.seed, "grains": 14 if k % 3 else 8, "part": int(ctx.shard)}
        for pw in (1, 4, 16):
            k += 1
            if k % ctx.spec.get("npool", 1) != ctx.spec.get("ipool", 0):
                continue
            yield {"kind": "pool", "length": L, "ncpus": None, "pool": pw, "system": "triclinic", "seed": 2000 + k + ctx.seed,
                   "grains": 14, "part": int(ctx.shard)}


def _pool(ctx, pydrex, case):
    import multiprocessing as mp

    dg = pydrex.diagnostics
    system = _system(pydrex, case["system"])
    if "f" not in _ORIG:
        _ORIG["f"] = dg.misorientation_index
    orig = _ORIG["f"]
    L, g = case["length"], case["grains"]
    stack = np.array([Rotation.random(g, random_state=int(case["seed"]) * 100 + i + 17 * ctx.shard).as_matrix() for i in range(L)])
    with np.errstate(all="ignore"):
        serial = np.array([orig(s, system) for s in stack])
    hashes = [int(hashlib.sha1(np.ascontiguousarray(s).tobytes()).hexdigest()[:8], 16) for s in stack]
    log = os.path.join(os.environ.get("PVMON_SCRATCH", "."), f"pool-{os.getpid()}.log")
    os.environ["PVMON_POOL_LOG"] = log
    open(log, "w").close()
    dg.misorientation_index = misorientation_index
    try:
        if case["pool"]:
            with mp.Pool(case["pool"]) as pool:
                out = dg.misorientation_indices(stack, system, pool=pool)
        else:
            out = dg.misorientation_indices(stack, system, ncpus=case["ncpus"])
    except Exception as e:
        ctx.case(case, nontrivial=False)
        ctx.check("pool_run_completes", False, case, key=f"raises/{type(e).__name__}", exc=str(e)[:200])
        return
    finally:
        dg.misorientation_index = orig
    out = np.asarray(out)
    ctx.case(case, nontrivial=L >= 2)
    lines = [ln.split() for ln in open(log)]
    os.unlink(log)
    pids = {ln[0] for ln in lines}
    done = [hashes.index(int(ln[1])) for ln in sorted(lines, key=lambda x: float(x[3])) if int(ln[1]) in hashes]
    inversions = sum(1 for a in range(len(done)) for b in range(a + 1, len(done)) if done[a] > done[b])
    ctx.count("pool_runs")
    ctx.count("pool_snapshots", L)
    ctx.count("pool_out_of_order_completions", inversions)
    ctx.count("pool_runs_with_out_of_order_completion", int(inversions > 0))
    ctx.extreme("distinct_worker_pids_in_one_run", len(pids))
    ctx.check("pool_every_snapshot_computed_once", sorted(done) == list(range(L)), case, completions=done)
    ok = out.shape == serial.shape and bool(np.array_equal(out, serial, equal_nan=True))
    ctx.check("pool_results_equal_serial_in_order", ok, case, got=out.tolist()[:8], serial=serial.tolist()[:8], completion_order=done[:40],
              workers=len(pids))
    if len(ctx.samples) < 3 and inversions:
        ctx.sample(case, completion_order=done, worker_pids=len(pids), out_of_order_pairs=inversions)


def run(ctx):
    bootstrap.import_pydrex()
    for case in gen_cases(ctx):
        check_case(ctx, case)


def finalize(merged, tier):
    r = []
    c = merged["counters"]
    if c.get("pool_out_of_order_completions", 0) == 0:
        r.append("no out-of-order worker completion was observed: the schedule was never exercised")
    return r
