"""C02 -- solver rates equal the published D-Rex equations; compiled == interpreted.

Every direct call of pydrex.core.derivatives (regimes matrix_dislocation and frictional_yielding) is
compared with the independent reference model ``refmodels.drex_rates``.  The same case streams are
executed by a compiled shard and by a NUMBA_DISABLE_JIT=1 shard; the two result files are compared
array by array by the cross-shard oracle.  A NUMBA_BOUNDSCHECK=1 shard repeats the compiled
workload with bounds checking inside every nopython kernel.  The interpreted shard also records
which anchored lines of core.py the workload executed (sys.monitoring LINE events).
"""
from __future__ import annotations

import os

import numpy as np

from .. import bootstrap, gen, linecov, refmodels

ID = "C02"
RULE = ("case = one call of core.derivatives on a generated (phase, fabric, regime, texture, volumes, L with unit max "
        "principal strain rate, p, n, lambda*, M*, phi); distinct = distinct descriptor digest; non-trivial = at least "
        "one grain with non-zero resolved rate on two slip systems (olivine) / on the active system (enstatite) and "
        "the reference comparison was evaluated on it")
ASSUMPTIONS = [
    "reference model written from Kaminski & Ribe 2001, Kaminski et al. 2004, Fraters & Billen 2021 (not from core.py)",
    "grains with ambiguous least-active tie or max|I/tau| < 1e-9 are excluded as the property states (counted)",
    "compiled-vs-interpreted agreement is decided on the cases of the paired streams only",
]
TOLERANCES = {"dA": "1e-10*kappa", "df": "1e-10*max(1,|df|_inf)*kappa", "jit_vs_interp": "1e-10*kappa",
              "kappa": "max(1, 1e-4 / min over compared grains of the largest slip activity)"}
REQUIRED_MONITORS = ["rotation_rate_equals_reference", "volume_rate_equals_reference"]

RANGES = [(315, 342), (386, 474), (477, 538), (541, 598), (601, 642), (645, 684), (687, 770)]


def plan(tier):
    if tier == "quick":
        return ([{"mode": "jit", "stream": s, "timeout": 600} for s in range(3)]
                + [{"mode": "interp", "stream": 0, "timeout": 600}]
                + [{"mode": "bounds", "stream": 1, "timeout": 600}])
    return ([{"mode": "jit", "stream": s, "timeout": 3000} for s in range(11)]
            + [{"mode": "interp", "stream": s, "timeout": 3000} for s in range(3)]
            + [{"mode": "bounds", "stream": s, "timeout": 3000} for s in (3, 4)])


def gen_cases(ctx):
    per = ctx.scale(260, 60000)
    if ctx.mode == "interp":
        per = ctx.scale(110, 6000)
    for i in range(per):
        rng = ctx.rng(1, i)
        pe, ne = gen.exponents(rng)
        case = {
            "i": i, "stream": ctx.spec.get("stream", ctx.shard),
            "seed": int(rng.integers(1 << 31)),
            "combo": int(i % 6) if i < 60 else int(rng.integers(6)),
            "regime": int(rng.choice([4, 6])),
            "n": int(rng.choice([1, 2, 5, 20, 60, 200], p=[0.05, 0.1, 0.2, 0.3, 0.25, 0.1])),
            "tex": str(rng.choice(gen.TEXTURE_KINDS)),
            "vol": str(rng.choice(gen.VOLUME_KINDS)),
            "Lkind": str(rng.choice(gen.L_KINDS)),
            "p": pe, "nexp": ne,
            "lam": float(rng.uniform(0, 10)) if rng.random() < 0.7 else float(rng.choice([0.0, 5.0, 10.0])),
            "M": float(rng.uniform(0, 200)) if rng.random() < 0.7 else float(rng.choice([0.0, 125.0, 200.0])),
            "phi": float(rng.uniform(0.05, 1.0)) if rng.random() < 0.7 else 1.0,
        }
        if rng.random() < 0.25:
            case["M"] = float(int(case["M"]))
            case["M_int"] = True
        if rng.random() < 0.15:
            case["nexp"] = float(rng.choice([2.0, 3.0, 4.0, 5.0]))
            case["p"] = float(rng.choice([1.0, 2.0, 1.5]))
        yield case


def build(case):
    rng = np.random.default_rng([int(case["seed"]), 5])
    _, A = gen.texture(rng, case["n"], case["tex"])
    _, f = gen.volumes(rng, case["n"], case["vol"])
    _, L = gen.velgrad(rng, case["Lkind"], unit=True)
    return A, f, L


def call(pydrex, case, A, f, L):
    core = pydrex.core
    phase, fabric = gen.combos(pydrex)[case["combo"]]
    return core.derivatives(
        regime=core.DeformationRegime(case["regime"]), phase=phase, fabric=fabric, n_grains=case["n"],
        orientations=A, fractions=f, strain_rate=(L + L.T) / 2, velocity_gradient=L,
        deformation_gradient_spin=np.zeros((3, 3)), stress_exponent=case["p"],
        deformation_exponent=case["nexp"], nucleation_efficiency=case["lam"], gbm_mobility=(int(case["M"]) if case.get("M_int") else case["M"]),
        volume_fraction=case["phi"])


def check_case(ctx, case, store=None):
    pydrex = bootstrap.import_pydrex()
    A, f, L = build(case)
    if gen.max_rate(L) == 0:
        ctx.case(case, nontrivial=False)
        return
    phase, fabric = gen.combos(pydrex)[case["combo"]]
    damping = 0.3 if case["regime"] == 6 else 1.0
    try:
        if case["i"] % 2:
            dA, df = call(pydrex, case, ctx.buf("A", A), ctx.buf("f", f), ctx.buf("L", L))
        else:
            dA, df = call(pydrex, case, A, f, L)
    except Exception as e:
        ctx.case(case, nontrivial=False)
        ctx.check("derivatives_does_not_raise", False, case, key=f"raises/{type(e).__name__}",
                  exc=f"{type(e).__name__}: {str(e)[:200]}")
        return
    dA, df = np.asarray(dA), np.asarray(df)
    A2, f2, L2 = build(case)
    ctx.check("inputs_not_mutated", bool(np.array_equal(A, A2) and np.array_equal(f, f2) and np.array_equal(L, L2)), case)
    rA, rf, info = refmodels.drex_rates(int(phase), int(fabric), A, f, L, case["p"], case["nexp"], case["lam"],
                                        case["M"], case["phi"], damping=damping)
    excl = info["tie"] | info["unresolved"]
    ctx.count("grains_total", case["n"])
    ctx.count("grains_excluded_tie", int(info["tie"].sum()))
    ctx.count("grains_excluded_unresolved", int(info["unresolved"].sum()))
    ctx.cls(f"combo={case['combo']}/regime={case['regime']}")
    ctx.cls(f"tex={case['tex']}")
    ctx.cls(f"L={case['Lkind']}")
    keep = ~excl
    # conditioning: the slip-rate ratios are scale free in the invariants, whose absolute rounding error is ~1e-16;
    # a grain whose largest activity is a (near axis-aligned grains: down to 1e-9) carries relative errors ~1e-16/a
    amin = float(info["amax"][keep].min()) if keep.any() else 1.0
    kappa = max(1.0, 1e-4 / max(amin, 1e-300))
    ctx.extreme("conditioning_factor", kappa)
    # non-trivial: some kept grain with two active systems (olivine) / active system (enstatite)
    nz = (np.abs(info["beta"]) > 1e-12).sum(1)
    nontriv = bool(np.any(keep & (nz >= (2 if int(phase) == 0 else 1))))
    ctx.case(case, nontrivial=nontriv)
    if keep.any():
        errA = float(np.abs(dA[keep] - rA[keep]).max())
        ctx.extreme("max|dA-ref|", errA)
        ctx.check("rotation_rate_equals_reference", errA <= 1e-10 * kappa, case, err=errA, kappa=kappa,
                  worst_grain=int(np.argmax(np.abs(dA - rA).max(axis=(1, 2)) * keep)))
    if not excl.any():
        scale = max(1.0, float(np.abs(rf).max()))
        errf = float(np.abs(df - rf).max())
        ctx.extreme("max|df-ref|/scale", errf / scale)
        ctx.check("volume_rate_equals_reference", errf <= 1e-10 * scale * kappa, case, err=errf, scale=scale, kappa=kappa,
                  M=case["M"], lam=case["lam"])
    else:
        ctx.count("cases_df_skipped_illconditioned")
    if store is not None:
        store.append((case["i"], dA, df, kappa))
    if len(ctx.samples) < 3 and nontriv:
        ctx.sample(case, max_abs_dA=float(np.abs(dA).max()), max_abs_df=float(np.abs(df).max()),
                   err_dA=float(np.abs(dA[keep] - rA[keep]).max()) if keep.any() else None)


def run(ctx):
    pydrex = bootstrap.import_pydrex()
    cov = False
    if ctx.mode == "interp":
        cov = linecov.start(os.path.join(bootstrap.repo_dir(), "src", "pydrex"))
    store = []
    for case in gen_cases(ctx):
        check_case(ctx, case, store)
    if cov:
        linecov.stop()
        ctx.extra["anchored_lines"] = linecov.report("core.py", RANGES, os.path.join(bootstrap.repo_dir(), "src", "pydrex"))
    # CRSS table directly (public get_crss), all six valid pairs
    for phase, fabric in gen.combos(pydrex):
        got = np.asarray(pydrex.core.get_crss(phase, fabric), float)
        exp = np.array(refmodels.CRSS[(int(phase), int(fabric))], float)
        ctx.check("crss_table", bool(np.array_equal(got, exp)), {"phase": int(phase), "fabric": int(fabric)},
                  got=got.tolist())
    shared = os.environ.get("PVMON_SHARED")
    if shared and ctx.mode in ("jit", "interp") and store:
        stream = ctx.spec.get("stream", ctx.shard)
        np.savez(os.path.join(shared, f"{ctx.mode}-{stream}.npz"),
                 idx=np.array([s[0] for s in store]),
                 **{f"dA{s[0]}": s[1] for s in store}, **{f"df{s[0]}": s[2] for s in store},
                 **{f"kappa{s[0]}": np.array(s[3]) for s in store})


def cross(ctx, shared):
    """Compiled vs interpreted: same case stream, compare arrays."""
    import glob

    for ip in sorted(glob.glob(os.path.join(shared, "interp-*.npz"))):
        stream = os.path.basename(ip)[len("interp-"):-4]
        jp = os.path.join(shared, f"jit-{stream}.npz")
        if not os.path.exists(jp):
            ctx.inconclusive.append(f"no compiled results for interpreted stream {stream}")
            continue
        a, b = np.load(ip), np.load(jp)
        common = sorted(set(a["idx"].tolist()) & set(b["idx"].tolist()))
        for i in common:
            dA1, dA2, df1, df2 = a[f"dA{i}"], b[f"dA{i}"], a[f"df{i}"], b[f"df{i}"]
            case = {"stream": int(stream), "i": int(i), "pair": "jit-vs-interp"}
            ctx.case(case, nontrivial=True)
            same_shape = dA1.shape == dA2.shape and df1.shape == df2.shape
            if not same_shape:
                ctx.check("jit_equals_interpreted", False, case, shapes=[list(dA1.shape), list(dA2.shape)])
                continue
            eA = float(np.abs(dA1 - dA2).max()) if dA1.size else 0.0
            ef = float(np.abs(df1 - df2).max()) if df1.size else 0.0
            sc = max(1.0, float(np.abs(df2).max()) if df2.size else 1.0)
            nanmismatch = bool(np.isnan(dA1).any() != np.isnan(dA2).any() or np.isnan(df1).any() != np.isnan(df2).any())
            ctx.extreme("jit_vs_interp_dA", eA)
            ctx.extreme("jit_vs_interp_df/scale", ef / sc)
            kap = float(b[f"kappa{i}"]) if f"kappa{i}" in b.files else 1.0
            ctx.check("jit_equals_interpreted", (eA <= 1e-10 * kap and ef <= 1e-10 * sc * kap) and not nanmismatch, case,
                      err_dA=eA, err_df=ef, kappa=kap)


def finalize(merged, tier):
    r = []
    if merged["monitors"].get("jit_equals_interpreted", 0) == 0:
        r.append("compiled-vs-interpreted oracle evaluated zero pairs")
    tot = merged["counters"].get("grains_total", 0)
    ex = merged["counters"].get("grains_excluded_tie", 0) + merged["counters"].get("grains_excluded_unresolved", 0)
    if tot and ex > 0.35 * tot:
        r.append(f"{ex}/{tot} grains were excluded as ill-conditioned (>35%)")
    return r
