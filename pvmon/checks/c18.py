"""C18 -- analytic flows are self-consistent and pathlines follow them inside the domain.

(1) Richardson-extrapolated central-difference Jacobian of every velocity callable against its paired
gradient callable, trace, out-of-plane entries, for 3 flow families x 6 ordered axis pairs x
amplitudes 1e-15..1e2 x cell sizes 1e-3..1e6; (2) every clause on get_pathline results, with the ODE
clause decided by an independent forward re-integration (DOP853, rtol 1e-10) from the path's start to
the requested final location; (3) strain_increment against numpy eigvalsh.  Defect models for the
known findings K2 (simple_shear_2d: L = 2 grad u), K3/K3b (cell_2d: row v swapped, trace), K4
(cell_2d pathline: brentq sign error) are evaluated per failing point.
"""
from __future__ import annotations

import warnings

import numpy as np

from .. import bootstrap, gen

ID = "C18"
RULE = ("case = one (flow family, axis pair, amplitude, size) with a batch of interior points for the Jacobian oracle, one pathline "
        "request (flow, box, final location, strain limit, resampling), or one strain-increment call; distinct = descriptor digest; "
        "non-trivial = velocity non-zero at the sampled points / pathline longer than one step")
ASSUMPTIONS = ["corner flow sampled on its physical domain (horizontal > 0, vertical < 0); points within 1e-3 of the corner excluded",
               "pathline tolerances: inside the box within 1e-3*size, forward re-integration error <= 1e-3*size, strain <= 1.25*max_strain + 1e-9"]
TOLERANCES = {"jacobian": "1e-6*max|L| + FD error estimate", "trace": "1e-9*max|L|"}
REQUIRED_MONITORS = ["gradient_equals_jacobian", "trace_free", "pathline_returned", "pathline_ends_at_final_location",
                     "pathline_timestamps", "pathline_satisfies_ode", "pathline_inside_box", "pathline_strain_bounded",
                     "strain_increment"]

AX = "XYZ"
PAIRS = [("X", "Y"), ("X", "Z"), ("Y", "X"), ("Y", "Z"), ("Z", "X"), ("Z", "Y")]


def plan(tier):
    if tier == "quick":
        return [{"mode": "jit", "timeout": 900}] * 6
    return [{"mode": "jit", "timeout": 3400}] * 16


def gen_cases(ctx):
    k = 0
    for i in range(ctx.share(ctx.scale(432, 45000))):
        rng = ctx.rng(1, i)
        yield {"kind": "jacobian", "flow": ["shear", "cell", "corner"][i % 3], "pair": int((i // 3) % 6),
               "amp": float(10.0 ** rng.uniform(-15, 2)), "size": float(10.0 ** rng.uniform(-3, 6)),
               "seed": int(rng.integers(1 << 31)), "npts": ctx.scale(25, 60)}
    for i in range(ctx.share(ctx.scale(150, 16000))):
        rng = ctx.rng(2, i)
        yield {"kind": "pathline", "flow": ["corner", "shear", "cell"][i % 3], "pair": int(rng.integers(6)),
               # one flow in seven is so slow that neither the strain limit nor the box is reached within the
               # 100 Myr integration horizon (the pathline then simply spans the whole horizon)
               "amp": float(10.0 ** (rng.uniform(-10, 1) if i % 7 else rng.uniform(-20, -16.5))), "seed": int(rng.integers(1 << 31)),
               "max_strain": float(rng.choice([0.5, 2.0, 7.0])), "steps": [None, 10, 100][int(rng.integers(3))],
               "box": str(rng.choice(["std", "thin", "offset"]))}
    for i in range(ctx.share(ctx.scale(600, 20000))):
        rng = ctx.rng(3, i)
        yield {"kind": "strain_increment", "seed": int(rng.integers(1 << 31)), "dt": float(rng.normal() * 10.0 ** rng.uniform(-6, 16)),
               "scale": float(10.0 ** rng.uniform(-16, 3)), "Lkind": str(rng.choice(gen.L_KINDS))}


def flow(pydrex, name, pair, amp, size):
    V = pydrex.velocity
    h, v = PAIRS[pair]
    if name == "shear":
        u, L = V.simple_shear_2d(h, v, amp)
    elif name == "cell":
        u, L = V.cell_2d(h, v, amp, size)
    else:
        u, L = V.corner_2d(h, v, amp)
    return u, L, AX.index(h), AX.index(v)


def jacobian(u, x, hstep):
    J = np.zeros((3, 3))
    E = np.zeros((3, 3))
    for j in range(3):
        e = np.zeros(3)
        e[j] = 1.0
        d1 = (np.asarray(u(np.nan, x + hstep * e)) - np.asarray(u(np.nan, x - hstep * e))) / (2 * hstep)
        d2 = (np.asarray(u(np.nan, x + 0.5 * hstep * e)) - np.asarray(u(np.nan, x - 0.5 * hstep * e))) / hstep
        J[:, j] = (4 * d2 - d1) / 3
        E[:, j] = np.abs(d2 - d1)
    return J, float(E.max())


def check_case(ctx, case):
    pydrex = bootstrap.import_pydrex()
    return {"jacobian": _jacobian, "pathline": _pathline, "strain_increment": _strain_inc}[case["kind"]](ctx, pydrex, case)


def _jacobian(ctx, pydrex, case):
    rng = np.random.default_rng([int(case["seed"]), 5])
    name = case["flow"]
    u, L, ih, iv = flow(pydrex, name, case["pair"], case["amp"], case["size"])
    io = 3 - ih - iv
    size = case["size"]
    ctx.cls(f"flow={name}/pair={''.join(PAIRS[case['pair']])}")
    anynz = False
    for k in range(case["npts"]):
        x = np.zeros(3)
        x[io] = rng.normal() * size
        if name == "cell":
            x[ih], x[iv] = rng.uniform(-0.49, 0.49, 2) * size
            hs = 1e-4 * size
        elif name == "corner":
            x[ih] = rng.uniform(0.01, 1.0) * size
            x[iv] = -rng.uniform(0.01, 1.0) * size
            hs = 1e-4 * min(abs(x[ih]), abs(x[iv]))
        else:
            x[ih], x[iv] = rng.normal(size=2) * size
            hs = 1e-4 * size
        Lx = np.asarray(L(np.nan, x), float)
        ux = np.asarray(u(np.nan, x), float)
        anynz = anynz or bool(np.any(ux != 0))
        J, fd = jacobian(u, x, hs)
        sc = max(float(np.abs(Lx).max()), float(np.abs(J).max()), 1e-300)
        tol = 1e-6 * sc + 10 * fd
        err = float(np.abs(Lx - J).max())
        pt = {**case, "point": x.tolist()}
        ok = err <= tol
        key, explained = "gradient_equals_jacobian", None
        if not ok and name == "shear":
            key = "jacobian/simple_shear_2d/L=2*grad_u"
            explained = bool(np.abs(Lx - 2 * J).max() <= tol)
        if not ok and name == "cell":
            key = "jacobian/cell_2d/row_v_swapped"
            Ls = Lx.copy()
            Ls[iv, ih], Ls[iv, iv] = Lx[iv, iv], Lx[iv, ih]
            explained = bool(np.abs(Ls - J).max() <= tol)
        if ok:
            ctx.extreme(f"jacobian_err/scale[{name}]", err / sc)
        ctx.check("gradient_equals_jacobian", ok, pt, key=key, explained=explained, err=err, scale=sc, L=Lx.tolist(), J=J.round(12).tolist())
        # rows/columns outside the flow plane must vanish exactly; velocity has no out-of-plane component
        mask = np.ones((3, 3), bool)
        mask[np.ix_([ih, iv], [ih, iv])] = False
        ctx.check("out_of_plane_entries_zero", bool(np.all(Lx[mask] == 0) and ux[io] == 0), pt, L=Lx.tolist(), u=ux.tolist())
        tr = float(np.trace(Lx))
        okt = abs(tr) <= 1e-9 * sc
        keyt, expl = "trace_free", None
        if not okt and name == "cell":
            keyt = "tracefree/cell_2d/row_v_swapped"
            expl = bool(abs(tr - (J[ih, ih] + J[iv, ih])) <= tol)
        ctx.check("trace_free", okt, pt, key=keyt, explained=expl, trace=tr, scale=sc)
        # the velocity field itself is divergence free (independent of the gradient callable)
        ctx.check("velocity_divergence_free", abs(float(np.trace(J))) <= tol, pt, div=float(np.trace(J)))
    # axis assignment as documented: first letter = direction of the velocity (shear) / horizontal axis
    amp = case["amp"]
    ev = np.zeros(3)
    ev[iv] = 1.0
    eh = np.zeros(3)
    eh[ih] = 1.0
    if name == "shear":
        uu = np.asarray(u(np.nan, 3.0 * ev + 0.5 * eh))
        okax = abs(uu[ih] - 3.0 * amp) <= 1e-12 * amp and uu[iv] == 0 and uu[io] == 0
    elif name == "cell":
        uu = np.asarray(u(np.nan, 0.5 * size * ev))      # top of the cell: edge velocity along +horizontal
        okax = abs(uu[ih] - amp) <= 1e-9 * amp and abs(uu[iv]) <= 1e-9 * amp
        uu2 = np.asarray(u(np.nan, 0.5 * size * eh))     # right edge: edge velocity along -vertical
        okax = okax and abs(uu2[iv] + amp) <= 1e-9 * amp and abs(uu2[ih]) <= 1e-9 * amp
    else:
        uu = np.asarray(u(np.nan, 1.0 * eh - 1e-12 * ev))  # at the surface the material moves with the plate along +horizontal
        okax = abs(uu[ih] - amp) <= 1e-6 * amp and abs(uu[iv]) <= 1e-6 * amp
    ctx.check("axis_assignment", bool(okax), case, u=np.asarray(uu).tolist(), ih=ih, iv=iv)
    ctx.case(case, nontrivial=anynz)
    if len(ctx.samples) < 2:
        ctx.sample(case)


def _box(name, ih, iv, box, rng):
    lo, hi = np.zeros(3), np.zeros(3)
    if name == "corner":
        lo[ih], hi[ih] = 0.0, 5.0
        lo[iv], hi[iv] = -2.0, 0.0
        if box == "thin":
            lo[iv] = -0.3
        if box == "offset":
            lo[ih], hi[ih] = 0.5, 3.0
        x = np.zeros(3)
        x[ih] = rng.uniform(lo[ih] + 0.05, hi[ih] - 0.05)
        x[iv] = rng.uniform(lo[iv] + 0.02, hi[iv] - 0.02)
        size = 5.0
    elif name == "shear":
        lo[:], hi[:] = -1.0, 1.0
        if box == "thin":
            lo[iv], hi[iv] = -0.1, 0.1
        if box == "offset":
            lo[:], hi[:] = 2.0, 4.0
        x = rng.uniform(lo + 0.05 * (hi - lo), hi - 0.05 * (hi - lo))
        size = float((hi - lo).max())
    else:
        lo[ih], hi[ih] = -1.0, 1.0
        lo[iv], hi[iv] = -1.0, 1.0
        if box == "thin":
            lo[iv], hi[iv] = -0.4, 0.4
        x = np.zeros(3)
        x[ih] = rng.uniform(lo[ih] + 0.05, hi[ih] - 0.05)
        x[iv] = rng.uniform(lo[iv] + 0.05, hi[iv] - 0.05)
        size = 2.0
    return lo, hi, x, size


def _pathline(ctx, pydrex, case):
    from scipy.integrate import solve_ivp

    import importlib

    P = importlib.import_module("pydrex.pathlines")
    rng = np.random.default_rng([int(case["seed"]), 7])
    name = case["flow"]
    amp = case["amp"]
    u, L, ih, iv = flow(pydrex, name, case["pair"], amp, 2.0)
    lo, hi, x, size = _box(name, ih, iv, case["box"], rng)
    ms = case["max_strain"]
    pt = {**case, "final_location": x.tolist(), "lo": lo.tolist(), "hi": hi.tolist()}
    ctx.cls(f"pathline/{name}")
    try:
        with warnings.catch_warnings():
            warnings.simplefilter("ignore")
            ts, pos = P.get_pathline(x, u, L, lo, hi, ms, regular_steps=case["steps"])
    except Exception as e:
        ctx.case(case, nontrivial=False)
        msg = str(e)
        key, explained = f"pathline_raises/{type(e).__name__}", None
        if isinstance(e, ValueError) and "f(a) and f(b) must have different signs" in msg:
            # K4: stateful terminal event (mechanism independent of the flow family)
            key, explained = "pathline_raises/brentq_sign", True
        ctx.check("pathline_returned", False, pt, key=key, explained=explained, exc=f"{type(e).__name__}: {msg[:150]}")
        ctx.count(f"pathline_raised[{name}]")
        return
    ctx.check("pathline_returned", True, pt)
    ts = np.asarray(ts, float)
    if int(case["seed"]) % 4 == 0:
        # solver options of one request must not become the defaults of the next: coarse preview in between
        try:
            with warnings.catch_warnings():
                warnings.simplefilter("ignore")
                try:
                    P.get_pathline(x, u, L, lo, hi, ms, regular_steps=case["steps"], rtol=1e-1, atol=1e3 * amp)
                except Exception:
                    ctx.count("coarse_preview_raised")
                ts2, pos2 = P.get_pathline(x, u, L, lo, hi, ms, regular_steps=case["steps"])
            ts2 = np.asarray(ts2, float)
            same_ = ts2.shape == ts.shape and np.array_equal(ts2, ts) and np.array_equal(np.asarray(pos2(ts2[0])), np.asarray(pos(ts[0])))
            ctx.check("pathline_options_do_not_leak", bool(same_), pt, n1=len(ts), n2=len(ts2))
        except Exception as e:
            # the repeated default request raised although the first one returned (K4 is stateful too): classify alike
            msg = str(e)
            k4 = isinstance(e, ValueError) and "f(a) and f(b) must have different signs" in msg
            ctx.check("pathline_options_do_not_leak", False, pt, key=("pathline_raises/brentq_sign" if k4 else "pathline_options_leak/raises"),
                      explained=(True if k4 else None), exc=msg[:120])
    ctx.case(case, nontrivial=len(ts) > 2)
    if abs(ts[0]) >= 0.999 * 100e6 * 365.25 * 8.64e4:
        ctx.cls("pathline/spans_whole_horizon")
    ctx.check("pathline_timestamps", bool(np.all(np.diff(ts) > 0)) and ts[-1] == 0.0 and len(ts) >= 2, pt, ts_head=ts[:3].tolist(), ts_tail=ts[-3:].tolist())
    if case["steps"] is not None:
        ctx.check("pathline_regular_steps", len(ts) == case["steps"] + 1, pt, n=len(ts))
    e0 = float(np.abs(np.asarray(pos(0.0)) - x).max())
    ctx.check("pathline_ends_at_final_location", e0 <= 1e-9 * size, pt, err=e0)
    tt = np.linspace(ts[0], ts[-1], 2001)
    X = np.array([pos(t) for t in tt])
    out = float(max((lo - X).max(), (X - hi).max()))
    ctx.extreme("pathline_outside/size", out / size)
    ctx.check("pathline_inside_box", out <= 1e-3 * size, pt, outside=out)
    inside = np.all(X >= lo - 1e-12, axis=1) & np.all(X <= hi + 1e-12, axis=1)
    sr = np.array([np.abs(np.linalg.eigvalsh((lambda G: (G + G.T) / 2)(np.asarray(L(np.nan, np.clip(xx, lo, hi)), float)))).max() if ins else 0.0
                   for xx, ins in zip(X, inside)])
    strain = float(np.trapezoid(sr, tt))
    ctx.extreme("pathline_strain/max_strain", strain / ms)
    ctx.check("pathline_strain_bounded", strain <= 1.25 * ms + 1e-9, pt, strain=strain, max_strain=ms)
    # ODE clause: forward re-integration from the start of the path must arrive at the final location
    try:
        fwd = solve_ivp(lambda t, y: np.asarray(u(np.nan, np.clip(y, lo, hi))), (ts[0], 0.0), np.asarray(pos(ts[0]), float),
                        method="DOP853", rtol=1e-10, atol=1e-12 * size)
        ferr = float(np.abs(fwd.y[:, -1] - x).max())
        ctx.extreme("pathline_forward_err/size", ferr / size)
        ctx.check("pathline_satisfies_ode", fwd.success and ferr <= 1e-3 * size, pt, err=ferr)
    except Exception as e:
        ctx.check("pathline_satisfies_ode", False, pt, key="pathline_ode/reintegration_failed", exc=str(e)[:150])
    if len(ctx.samples) < 4:
        ctx.sample(pt, n_timestamps=len(ts), t_start=float(ts[0]), strain=strain)


def _strain_inc(ctx, pydrex, case):
    rng = np.random.default_rng([int(case["seed"]), 9])
    _, Lm = gen.velgrad(rng, case["Lkind"], unit=True)
    Lm = Lm * case["scale"]
    dt = case["dt"]
    got = float(pydrex.utils.strain_increment(dt, Lm))
    exp = abs(dt) * float(np.abs(np.linalg.eigvalsh((Lm + Lm.T) / 2)).max())
    ctx.case(case, nontrivial=exp > 0)
    ctx.check("strain_increment", abs(got - exp) <= 1e-12 * max(exp, 1e-300) + 1e-300 and got >= 0, case, got=got, exp=exp)


def run(ctx):
    bootstrap.import_pydrex()
    for case in gen_cases(ctx):
        check_case(ctx, case)


def finalize(merged, tier):
    r = []
    c = merged["counters"]
    for fl in ("cell", "corner", "shear"):
        tot = merged["classes"].get(f"pathline/{fl}", 0)
        if tot and c.get(f"pathline_raised[{fl}]", 0) > 0.5 * tot:
            r.append(f"more than half of the {fl} pathlines raised")
    return r
