"""Check harness: per-shard context (counters, oracles, samples), shard fan-out with watchdogs,
merge, known-finding classification, three-valued verdict, evidence and replay files.

A check module (pvmon/checks/cNN.py) provides

    ID, TITLE, RULE, ASSUMPTIONS
    plan(tier) -> list of shard specs  {"mode": "jit"|"interp"|"bounds"|..., "timeout": s, ...}
    run(ctx)                           # drives the workload of one shard
    check_case(ctx, case)              # (optional) re-executes one recorded case  -> replay
    finalize(merged, tier)             # (optional) extra requirements on the merged result
                                       #   returns list of inconclusive reasons

Oracles never raise into the code under test; they *record* through ``ctx.check`` and the verdict
is taken afterwards from counters and records.
"""
from __future__ import annotations

import hashlib
import json
import os
import subprocess
import sys
import tempfile
import time
import traceback

from . import bootstrap

# Evidence always describes runs against /repo itself; mutant / scratch-tree runs (VERIF_REPO set)
# redirect it so that committed evidence is never overwritten by them.
EVIDENCE_DIR = os.environ.get("PVMON_EVIDENCE_DIR") or os.path.join(bootstrap.VERIF_DIR, "evidence")
REPLAY_DIR = os.path.join(EVIDENCE_DIR, "replay")
KNOWN_FILE = os.path.join(bootstrap.VERIF_DIR, "known_findings.json")

MAX_VIOLATION_RECORDS = 400  # per shard
MAX_RECORDS_PER_SIGNATURE = 4  # example records kept per (sub-oracle, key, explained) signature
MAX_SAMPLES = 5


def jsonable(x):
    """Best-effort conversion of numpy scalars/arrays etc. into JSON-serialisable values."""
    import numpy as np

    if isinstance(x, dict):
        return {str(k): jsonable(v) for k, v in x.items()}
    if isinstance(x, (list, tuple, set)):
        return [jsonable(v) for v in x]
    if isinstance(x, np.ndarray):
        if x.size > 64:
            return {"ndarray_shape": list(x.shape), "sha1": hashlib.sha1(x.tobytes()).hexdigest()[:12]}
        return jsonable(x.tolist())
    if isinstance(x, (np.bool_,)):
        return bool(x)
    if isinstance(x, np.integer):
        return int(x)
    if isinstance(x, np.floating):
        x = float(x)
    if isinstance(x, float):
        if x != x:
            return "nan"
        if x in (float("inf"), float("-inf")):
            return "inf" if x > 0 else "-inf"
        return x
    if isinstance(x, complex):
        return str(x)
    if isinstance(x, (int, str, bool)) or x is None:
        return x
    if isinstance(x, bytes):
        return x.decode("utf-8", "backslashreplace")
    try:
        import enum

        if isinstance(x, enum.Enum):
            return f"{type(x).__name__}.{x.name}"
    except Exception:
        pass
    return repr(x)


def digest(obj) -> str:
    return hashlib.sha1(json.dumps(jsonable(obj), sort_keys=True).encode()).hexdigest()[:16]


class Ctx:
    """Per-shard recording context handed to a check's ``run``."""

    def __init__(self, prop, tier, seed, shard, nshards, spec, replay_case=None):
        self.prop = prop
        self.tier = tier
        self.seed = int(seed)
        self.shard = shard
        self.nshards = nshards
        self.spec = spec
        self.mode = spec.get("mode", "jit")
        self.replay_case = replay_case
        self.counters: dict[str, int] = {}
        self.monitors: dict[str, int] = {}  # evaluations per sub-oracle
        self.failures: dict[str, int] = {}  # failures per sub-oracle
        self.extrema: dict[str, float] = {}
        self.minima: dict[str, float] = {}
        self.classes: dict[str, int] = {}
        self.samples: list = []
        self.violations: list = []
        self.sigcounts: dict[str, int] = {}
        self.n_violations = 0
        self.evaluations = 0
        self.nontrivial: set[str] = set()
        self.notes: list[str] = []
        self.inconclusive: list[str] = []
        self.t0 = time.time()
        self.extra: dict = {}
        self._bufs: dict = {}

    # ---- randomness -------------------------------------------------------------------
    def rng(self, *key):
        import numpy as np

        k = [self.seed, int(self.prop[1:]), int(self.spec.get("stream", self.shard))] + [int(x) for x in key]
        return np.random.default_rng(k)

    def scale(self, quick, thorough):
        return quick if self.tier == "quick" else thorough

    def share(self, total):
        """This shard's share of ``total`` cases."""
        base = total // self.nshards
        return base + (1 if self.shard < total % self.nshards else 0)

    # ---- object-identity reuse -------------------------------------------------------------
    def buf(self, name, arr):
        """Return a *persistent* array object (one per name/shape/dtype) holding a copy of ``arr``.
        Passing these instead of fresh arrays means consecutive calls see the same object identity with
        different contents, so any hidden cache keyed on id()/identity makes the ordinary oracles fail."""
        import numpy as np

        arr = np.asarray(arr)
        key = (name, arr.shape, arr.dtype.str)
        b = self._bufs.get(key)
        if b is None:
            b = np.empty_like(arr)
            self._bufs[key] = b
        np.copyto(b, arr)
        self.counters["persistent_buffer_reuses"] = self.counters.get("persistent_buffer_reuses", 0) + 1
        return b

    def fresh_outputs(self, name, fn, *args, case=None, **kwargs):
        """Call ``fn`` twice on the same arguments; between the calls every ndarray returned by the first call is
        scrambled in place.  The second result must equal a copy of the first: a function that hands out a cached
        or shared array (so that a caller's in-place edit changes what later callers receive) fails this."""
        import numpy as np

        def arrays(r):
            if isinstance(r, np.ndarray):
                return [r]
            if isinstance(r, (tuple, list)):
                return [a for x in r for a in arrays(x)]
            if isinstance(r, dict):
                return [a for x in r.values() for a in arrays(x)]
            return []

        r1 = fn(*args, **kwargs)
        a1 = arrays(r1)
        keep = [a.copy() for a in a1]
        for a in a1:
            if a.flags.writeable and a.dtype.kind in "fc":
                a *= -3.7
                a += 1.0
        r2 = fn(*args, **kwargs)
        a2 = arrays(r2)
        ok = len(a2) == len(keep) and all(x.shape == y.shape and np.array_equal(x, y, equal_nan=True) for x, y in zip(a2, keep))
        self.check("returned_arrays_are_fresh", ok, case, key=f"returned_arrays_are_fresh/{name}", fn=name)
        return r2

    # ---- recording --------------------------------------------------------------------
    def count(self, name, k=1):
        self.counters[name] = self.counters.get(name, 0) + int(k)

    def cls(self, name, k=1):
        self.classes[name] = self.classes.get(name, 0) + int(k)

    def extreme(self, name, value):
        v = float(value)
        if v != v:
            return
        if name not in self.extrema or v > self.extrema[name]:
            self.extrema[name] = v

    def minimum(self, name, value):
        v = float(value)
        if v != v:
            return
        if name not in self.minima or v < self.minima[name]:
            self.minima[name] = v

    def flush(self, force=False):
        """Write the partial result of this shard (so that a shard killed by its watchdog -- e.g. because a broken
        tree makes a later case hang -- still reports the violations it had already observed)."""
        out = getattr(self, "_out", None)
        if not out:
            return
        now = time.time()
        if not force and now - getattr(self, "_last_flush", 0.0) < 20.0:
            return
        self._last_flush = now
        try:
            res = self.result()
            res["partial"] = True
            tmp = out + ".tmp"
            with open(tmp, "w") as f:
                json.dump(res, f)
            os.replace(tmp, out)
        except Exception:
            pass

    def case(self, case, nontrivial=True):
        """Register one generated case (evaluation); counts distinct non-trivial digests."""
        self.evaluations += 1
        if nontrivial:
            self.nontrivial.add(digest(case))
        self.flush()

    def sample(self, case, **obs):
        if len(self.samples) < MAX_SAMPLES:
            s = dict(jsonable(case)) if isinstance(case, dict) else {"case": jsonable(case)}
            if obs:
                s["observed"] = jsonable(obs)
            self.samples.append(s)

    def note(self, text):
        if len(self.notes) < 20 and text not in self.notes:
            self.notes.append(text)

    def check(self, sub, ok, case=None, key=None, explained=None, **obs):
        """Evaluate sub-oracle ``sub``. ``key`` = mechanism signature used for known-finding
        classification (defaults to ``sub``); ``explained`` = the defect model of a listed finding
        reproduces the observed numbers (only then may it be reported as KNOWN-FINDING)."""
        self.monitors[sub] = self.monitors.get(sub, 0) + 1
        if ok:
            return True
        self.failures[sub] = self.failures.get(sub, 0) + 1
        self.n_violations += 1
        ex = bool(explained) if explained is not None else False
        sig = f"{sub}|{key or sub}|{int(ex)}"
        self.sigcounts[sig] = self.sigcounts.get(sig, 0) + 1
        # keep example records per signature (so that a flood of one known finding can never crowd
        # out the record of a different failure); every failure is classified through sigcounts
        if self.sigcounts[sig] == 1:
            self._pending_flush = True
        if self.sigcounts[sig] <= MAX_RECORDS_PER_SIGNATURE and len(self.violations) < MAX_VIOLATION_RECORDS:
            self.violations.append(
                {
                    "sub": sub,
                    "key": key or sub,
                    "explained": bool(explained) if explained is not None else False,
                    "case": jsonable(case),
                    "observed": jsonable(obs),
                    "mode": self.mode,
                    "shard": self.shard,
                }
            )
        if getattr(self, "_pending_flush", False):
            self._pending_flush = False
            self.flush(force=True)
        return False

    def result(self):
        return {
            "prop": self.prop, "shard": self.shard, "mode": self.mode, "spec": self.spec,
            "counters": self.counters, "monitors": self.monitors, "failures": self.failures,
            "extrema": self.extrema, "minima": self.minima, "classes": self.classes,
            "samples": self.samples, "violations": self.violations, "sigcounts": self.sigcounts,
            "n_violations": self.n_violations, "evaluations": self.evaluations,
            "nontrivial": len(self.nontrivial), "notes": self.notes,
            "inconclusive": self.inconclusive, "wall_s": time.time() - self.t0,
            "extra": jsonable(self.extra),
        }


# ======================================================================================
# worker side


def load_check(prop):
    import importlib

    return importlib.import_module(f"pvmon.checks.{prop.lower()}")


def _raised_in_repo(exc):
    """Name of the repository function an exception escaped from, when the innermost frame that belongs to either the
    harness or the repository is a repository frame (the real code raised on an input the check considered valid);
    None when the innermost such frame is harness code (a harness bug: stays an inconclusive crash)."""
    src = os.path.realpath(os.path.join(bootstrap.repo_dir(), "src")) + os.sep
    here = os.path.dirname(os.path.realpath(__file__)) + os.sep
    where = None
    tb = exc.__traceback__
    while tb is not None:
        fn = os.path.realpath(tb.tb_frame.f_code.co_filename)
        if fn.startswith(src):
            where = tb.tb_frame.f_code.co_name
        elif fn.startswith(here):
            where = None
        tb = tb.tb_next
    return where


def _guard_check_case(mod):
    """Every property is stated for all inputs of its domain, so the repository raising on a generated (valid) input
    is an observation, not a crash of the harness: record it as a failing oracle evaluation keyed by exception type
    and raising function, and carry on with the next case."""
    orig = mod.check_case
    if getattr(orig, "_pvmon_guarded", False):
        return

    def check_case(ctx, case, *args, **kwargs):
        try:
            return orig(ctx, case, *args, **kwargs)
        except Exception as e:
            where = _raised_in_repo(e)
            if where is None:
                raise
            from . import drive

            if drive.solver_gave_up(case, e):
                # LSODA exhausted under the case's own non-default solver options: a property of the request (see drive.solver_gave_up)
                ctx.count("solver_gave_up_under_user_tolerances")
                return None
            ctx.check("repository_call_completes", False, case, key=f"raises/{type(e).__name__}@{where}",
                      exc=f"{type(e).__name__}: {str(e)[:200]}")

    check_case._pvmon_guarded = True
    mod.check_case = check_case


def worker_main(argv):
    """Entry of one shard subprocess: python -m pvmon.harness <prop> <tier> <seed> <shard> <n> <specjson> <out>"""
    prop, tier, seed, shard, nshards, specjson, out = argv[:7]
    replay = argv[7] if len(argv) > 7 else None
    import faulthandler

    spec = json.loads(specjson)
    faulthandler.enable()
    faulthandler.dump_traceback_later(max(30, int(spec.get("timeout", 600)) - 5), exit=False)
    bootstrap.setup_paths()
    ctx = Ctx(prop, tier, int(seed), int(shard), int(nshards), spec)
    ctx._out = out
    res = None
    try:
        mod = load_check(prop)
        _guard_check_case(mod)
        if replay:
            with open(replay) as f:
                rec = json.load(f)
            ctx.replay_case = rec["violation"]["case"]
            ctx.mode = rec["violation"].get("mode", ctx.mode)
            mod.check_case(ctx, ctx.replay_case)
        else:
            mod.run(ctx)
        res = ctx.result()
    except bootstrap.TreeIdentityError as e:
        ctx.inconclusive.append(f"tree identity: {e}")
        res = ctx.result()
    except BaseException as e:  # harness bug or unexpected crash: never silently 'held'
        ctx.inconclusive.append(
            "shard crashed: " + "".join(traceback.format_exception(type(e), e, e.__traceback__))[-3000:]
        )
        res = ctx.result()
    with open(out, "w") as f:
        json.dump(res, f)
    return 0


# ======================================================================================
# driver side


def _mode_env(mode):
    env = {}
    if mode in ("interp", "interp-cov"):
        env["NUMBA_DISABLE_JIT"] = "1"
    if mode == "bounds":
        env["NUMBA_BOUNDSCHECK"] = "1"
    return env


def run_shards(prop, tier, seed, specs, replay=None):
    """Run all shard specs in parallel subprocesses (<=16 at a time) with wall-clock watchdogs."""
    tmp = tempfile.mkdtemp(prefix=f"pvmon-{prop}-")
    procs = []
    results = []
    maxpar = int(os.environ.get("VERIF_JOBS", "16"))
    pending = list(enumerate(specs))
    running = []
    n = len(specs)
    try:
        while pending or running:
            while pending and len(running) < maxpar:
                i, spec = pending.pop(0)
                out = os.path.join(tmp, f"shard{i}.json")
                env = dict(os.environ)
                env.update(_mode_env(spec.get("mode", "jit")))
                env.update({k: str(v) for k, v in spec.get("env", {}).items()})
                env["PYTHONHASHSEED"] = "0"
                env["PYTHONPATH"] = bootstrap.VERIF_DIR + os.pathsep + env.get("PYTHONPATH", "")
                env.setdefault("NUMBA_NUM_THREADS", "1")
                env.setdefault("OMP_NUM_THREADS", "1")
                env.setdefault("OPENBLAS_NUM_THREADS", "1")
                env.setdefault("MKL_NUM_THREADS", "1")
                env["PVMON_SHARED"] = os.path.join(tmp, "shared")
                os.makedirs(env["PVMON_SHARED"], exist_ok=True)
                env["PVMON_SCRATCH"] = os.path.join(tmp, f"scratch{i}")
                os.makedirs(env["PVMON_SCRATCH"], exist_ok=True)
                cmd = [bootstrap.PYTHON, "-m", "pvmon.harness", prop, tier, str(seed), str(i), str(n),
                       json.dumps(spec), out]
                if replay:
                    cmd.append(replay)
                log = open(os.path.join(tmp, f"shard{i}.log"), "w")
                p = subprocess.Popen(cmd, env=env, stdout=log, stderr=subprocess.STDOUT,
                                     cwd=env["PVMON_SCRATCH"])
                running.append((i, spec, p, out, log, time.time()))
            still = []
            for (i, spec, p, out, log, t0) in running:
                rc = p.poll()
                timeout = float(spec.get("timeout", 600))
                if rc is None and time.time() - t0 > timeout:
                    p.kill()
                    p.wait()
                    rc = "timeout"
                if rc is None:
                    still.append((i, spec, p, out, log, t0))
                    continue
                log.close()
                res = None
                if os.path.exists(out):
                    try:
                        with open(out) as f:
                            res = json.load(f)
                    except Exception:
                        res = None
                died = (rc == "timeout") or (isinstance(rc, int) and rc != 0)
                if res is not None and (res.get("partial") or died):
                    res.setdefault("inconclusive", []).append(
                        f"shard {i} ({spec.get('mode','jit')}) "
                        + ("hit its wall-clock watchdog" if rc == "timeout" else f"ended with rc={rc}")
                        + " after reporting a partial result")
                if res is None:
                    tail = ""
                    try:
                        with open(log.name) as f:
                            tail = f.read()[-2000:]
                    except Exception:
                        pass
                    res = Ctx(prop, tier, seed, i, n, spec).result()
                    res["inconclusive"].append(
                        f"shard {i} ({spec.get('mode','jit')}) "
                        + ("hit its wall-clock watchdog" if rc == "timeout" else f"died rc={rc}")
                        + (": " + tail if tail else "")
                    )
                res["wall_s"] = time.time() - t0
                results.append(res)
            running = still
            if running:
                time.sleep(0.2)
        # cross-shard oracle (e.g. compiled vs interpreted results of the same cases)
        if not replay:
            try:
                mod = load_check(prop)
                cross = getattr(mod, "cross", None)
                if cross:
                    cctx = Ctx(prop, tier, seed, n, n, {"mode": "cross"})
                    try:
                        cross(cctx, os.path.join(tmp, "shared"))
                    except Exception as e:
                        cctx.inconclusive.append("cross-shard oracle crashed: " + "".join(
                            traceback.format_exception(type(e), e, e.__traceback__))[-2000:])
                    results.append(cctx.result())
            except Exception as e:
                pass
    finally:
        for (_i, _s, p, _o, log, _t) in running:
            try:
                p.kill()
            except Exception:
                pass
        import shutil

        shutil.rmtree(tmp, ignore_errors=True)
    results.sort(key=lambda r: r["shard"])
    return results


def merge(results):
    m = {
        "counters": {}, "monitors": {}, "failures": {}, "extrema": {}, "minima": {}, "classes": {},
        "samples": [], "violations": [], "sigcounts": {}, "n_violations": 0, "evaluations": 0, "nontrivial": 0,
        "notes": [], "inconclusive": [], "shards": [], "extra": {},
    }
    for r in results:
        for k in ("counters", "monitors", "failures", "classes"):
            for kk, v in r[k].items():
                m[k][kk] = m[k].get(kk, 0) + v
        for kk, v in r["extrema"].items():
            if kk not in m["extrema"] or v > m["extrema"][kk]:
                m["extrema"][kk] = v
        for kk, v in r["minima"].items():
            if kk not in m["minima"] or v < m["minima"][kk]:
                m["minima"][kk] = v
        m["violations"].extend(r["violations"])
        for kk, v in r.get("sigcounts", {}).items():
            m["sigcounts"][kk] = m["sigcounts"].get(kk, 0) + v
        m["n_violations"] += r["n_violations"]
        m["evaluations"] += r["evaluations"]
        m["nontrivial"] += r["nontrivial"]
        for s in r["samples"]:
            if len(m["samples"]) < MAX_SAMPLES:
                m["samples"].append(s)
        for s in r["notes"]:
            if s not in m["notes"]:
                m["notes"].append(s)
        m["inconclusive"].extend(r["inconclusive"])
        m["shards"].append({"shard": r["shard"], "mode": r["mode"], "wall_s": round(r["wall_s"], 2),
                            "evaluations": r["evaluations"]})
        if r.get("extra"):
            m["extra"][f"shard{r['shard']}"] = r["extra"]
    return m


def load_known(prop):
    try:
        with open(KNOWN_FILE) as f:
            data = json.load(f)
    except FileNotFoundError:
        return []
    return [e for e in data.get("findings", []) if e.get("property") == prop and e.get("status") == "known"]


def classify(prop, merged):
    """Split failures into known findings (listed key AND defect model explains the numbers) and
    genuine violations.  Classification runs over *every* failure through its signature count;
    the recorded violations only supply examples."""
    known = {e["key"]: e for e in load_known(prop)}
    kf, viol = {}, []
    examples = {}
    for v in merged["violations"]:
        sig = f"{v['sub']}|{v['key']}|{int(bool(v.get('explained')))}"
        examples.setdefault(sig, v)
    for sig, cnt in merged["sigcounts"].items():
        sub, key, ex = sig.rsplit("|", 2)
        e = known.get(key)
        example = examples.get(sig) or {"sub": sub, "key": key, "explained": bool(int(ex)), "case": None,
                                        "observed": {"note": "no example record kept"}, "mode": "?", "shard": -1}
        if e is not None and int(ex):
            kf.setdefault(key, {"entry": e, "count": 0, "example": example})
            kf[key]["count"] += cnt
        else:
            viol.append(example)
    return kf, viol


def write_evidence(prop, tier, seed, mod, merged, kf, viol, wall, verdict, reasons):
    os.makedirs(EVIDENCE_DIR, exist_ok=True)
    cov = {
        "evaluations": int(merged["evaluations"]),
        "distinct_nontrivial": int(merged["nontrivial"]),
        "rule": getattr(mod, "RULE", ""),
        "samples": merged["samples"],
        "exhaustive": bool(getattr(mod, "EXHAUSTIVE", False)),
        "verdict": verdict,
        "monitor_evaluations": merged["monitors"],
        "monitor_failures": merged["failures"],
        "counters": merged["counters"],
        "case_classes": merged["classes"],
        "observed_maxima": merged["extrema"],
        "observed_minima": merged["minima"],
        "tolerances": getattr(mod, "TOLERANCES", {}),
        "known_findings_matched": {k: {"count": v["count"], "what": v["entry"].get("what", "")} for k, v in kf.items()},
        "inconclusive_reasons": reasons,
        "notes": merged["notes"],
        "shards": merged["shards"],
        "tree": bootstrap.tree_id(),
        "extra": merged["extra"],
    }
    ev = {
        "property_id": prop,
        "tier": tier,
        "seed": int(seed),
        "level": "exploration",
        "coverage": cov,
        "assumptions": list(getattr(mod, "ASSUMPTIONS", [])),
        "wall_s": round(wall, 2),
        "violations": len(viol) if verdict != "held" else 0,
    }
    path = os.path.join(EVIDENCE_DIR, f"{prop}.json")
    if not cov["samples"]:
        # nothing completed far enough to be sampled (e.g. every case failed early): show the failing cases instead
        cov["samples"] = [{"note": "no case completed", "failing_case": v.get("case")} for v in viol[:3]] or [{"note": "no case completed"}]
    # self-validate against the schema when available; an evidence file that does not validate is reported, never fatal
    problem = None
    try:
        import jsonschema

        with open("/root/.vp/EVIDENCE.schema.json") as f:
            schema = json.load(f)
        jsonschema.validate(ev, schema)
    except ImportError:
        pass
    except FileNotFoundError:
        pass
    except Exception as e:
        problem = f"evidence does not validate against EVIDENCE.schema.json: {str(e).splitlines()[0][:200]}"
    with open(path, "w") as f:
        json.dump(ev, f, indent=1, sort_keys=False)
    return problem


def write_replay(prop, idx, v, tier, seed):
    os.makedirs(REPLAY_DIR, exist_ok=True)
    path = os.path.join(REPLAY_DIR, f"{prop}-{idx}.json")
    with open(path, "w") as f:
        json.dump({"property": prop, "tier": tier, "seed": seed, "violation": v,
                   "tree": bootstrap.tree_id()}, f, indent=1)
    return path


def drive(prop, tier, seed, replay=None):
    t0 = time.time()
    bootstrap.ensure_deps()
    bootstrap.setup_paths()
    mod = load_check(prop)
    if replay:
        with open(replay) as f:
            rec = json.load(f)
        mode = rec["violation"].get("mode", "jit")
        specs = [{"mode": mode, "timeout": 1800}]
        tier = rec.get("tier", tier)
        seed = rec.get("seed", seed)
    else:
        specs = mod.plan(tier)
    results = run_shards(prop, tier, seed, specs, replay=replay)
    merged = merge(results)
    reasons = list(merged["inconclusive"])
    if not replay:
        fin = getattr(mod, "finalize", None)
        if fin:
            reasons.extend(fin(merged, tier) or [])
        if merged["evaluations"] == 0:
            reasons.append("no case was evaluated")
        for name in getattr(mod, "REQUIRED_MONITORS", []):
            if merged["monitors"].get(name, 0) == 0:
                reasons.append(f"deciding monitor '{name}' was evaluated zero times")
    kf, viol = classify(prop, merged)
    if viol:
        verdict = "violated"
    elif reasons:
        verdict = "inconclusive"
    else:
        verdict = "held"
    wall = time.time() - t0
    if not replay:
        problem = write_evidence(prop, tier, seed, mod, merged, kf, viol, wall, verdict, reasons)
        if problem:
            reasons.append(problem)
            if verdict == "held":
                verdict = "inconclusive"
    # ---- report ----
    print(f"[{prop}] tier={tier} seed={seed} shards={len(specs)} evaluations={merged['evaluations']} "
          f"distinct_nontrivial={merged['nontrivial']} wall={wall:.1f}s")
    mons = ", ".join(f"{k}={v}" for k, v in sorted(merged["monitors"].items()))
    print(f"[{prop}] monitor evaluations: {mons}")
    if merged["extrema"]:
        print(f"[{prop}] observed maxima: " + ", ".join(f"{k}={v:.3g}" for k, v in sorted(merged["extrema"].items())))
    for n in merged["notes"]:
        print(f"NOTE: property={prop} {n}")
    for k, v in sorted(kf.items()):
        print(f"KNOWN-FINDING: property={prop} {k}: {v['entry'].get('what','')} (seen {v['count']}x this run)")
    if os.environ.get("PVMON_DEBUG"):
        os.makedirs(REPLAY_DIR, exist_ok=True)
        with open(os.path.join(REPLAY_DIR, f"{prop}-all.json"), "w") as f:
            json.dump({"violations": merged["violations"], "known": {k: v["count"] for k, v in kf.items()}}, f, indent=1)
    if verdict == "violated":
        for r in reasons:
            print(f"INCONCLUSIVE-PART property={prop} reason={r[:1500]}")
        seen = set()
        idx = 0
        for v in viol:
            sig = (v["sub"], v["key"])
            if sig in seen:
                continue
            seen.add(sig)
            path = write_replay(prop, idx, v, tier, seed)
            idx += 1
            print(f"VIOLATION property={prop} replay={path}")
            print(f"  sub-oracle={v['sub']} key={v['key']} mode={v['mode']} observed={json.dumps(v['observed'])[:600]}")
            print(f"  case={json.dumps(v['case'])[:600]}")
            if idx >= 8:
                break
        print(f"[{prop}] verdict=violated ({merged['n_violations']} failing oracle evaluations, "
              f"{len(viol)} recorded, {sum(x['count'] for x in kf.values())} matched known findings)")
        return 1
    if verdict == "inconclusive":
        for r in reasons:
            print(f"INCONCLUSIVE property={prop} reason={r[:1500]}")
        return 2
    print(f"[{prop}] verdict=held on everything explored")
    return 0


if __name__ == "__main__":
    sys.exit(worker_main(sys.argv[1:]))
