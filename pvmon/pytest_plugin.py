"""pytest plugin: run the repository's own test-suite with the runtime monitors installed
("suite-under-monitors", thorough tiers of C01, C03 and C09).

    pytest -p pvmon.pytest_plugin ...      env: PVMON_PLUGIN_PROP=C01|C03|C09, PVMON_PLUGIN_OUT=<dir>

The real simple-shear / Stokes-cell simulations of the suite (thousands of grains, hundreds of
updates) then execute with the contracts on; every process (xdist worker) dumps its recorded
counters / failures to PVMON_PLUGIN_OUT/<pid>.json, which the check's "suite" shard merges.
Oracles record and return; they never raise into the test.
"""
from __future__ import annotations

import json
import os

_STATE = {}


def pytest_configure(config):
    out = os.environ.get("PVMON_PLUGIN_OUT")
    if not out:
        return
    import numpy as np

    from pvmon import bootstrap, drive, harness, refmodels
    from pvmon.checks import c01, c09

    prop = os.environ.get("PVMON_PLUGIN_PROP", "C01")
    pydrex = bootstrap.import_pydrex()
    ctx = harness.Ctx(prop, "thorough", int(os.environ.get("VERIF_SEED", "0") or 0), 0, 1, {"mode": "suite"})
    st = {"case": {"kind": "suite", "test": "<collection>"}}
    mon = drive.Monitors(pydrex, ctx)
    mon.skip_c03 = prop not in ("C01", "C03")
    mon.install()
    mon.case = st["case"]
    if prop == "C01":
        c01.install_contract(pydrex, ctx, st, window=3)

        def extract_hook(y, n, res):
            F, A, f = res
            ok = bool(np.isfinite(f).all() and f.min() >= 0 and abs(f.sum() - 1) <= 1e-12 and np.abs(A).max() <= 1)
            ctx.check("extract_vars_on_manifold", ok, st["case"])

        mon.extract_hook = extract_hook
    M = pydrex.minerals.Mineral
    inner = M.update_orientations

    def update_orientations(self, params, *a, **k):
        if prop == "C09":
            mon.record_gbs = True
            mon.gbs_calls = []
        n_before = len(self.orientations)
        try:
            r = inner(self, params, *a, **k)
        finally:
            calls, mon.gbs_calls, mon.record_gbs = mon.gbs_calls, [], False
        case = st["case"]
        ctx.count("suite_updates")
        try:
            if prop == "C01" and len(self.orientations) == n_before + 1:
                N = len(self.orientations) - 1
                # accumulated strain is unknown here: the orthonormality bound is evaluated with strain = 0
                # (stricter than the property) and only *recorded*; the other clauses are enforced
                faults = refmodels.texture_faults(self.orientations[-1], self.fractions[-1], self.n_grains, float("inf"))
                ctx.extreme("suite_orth_err/(5e-3+1e-3N)", refmodels.orth_err(self.orientations[-1]) / (5e-3 + 1e-3 * N))
                regime = int(self.regime)
                names = {x for x, _ in faults}
                if regime == 1:
                    names -= {"right_handed"}
                ctx.check("snapshot_valid", not names, case, faults=[list(map(str, x)) for x in faults], regime=regime)
            if prop == "C09" and calls:
                chi, n = params["gbs_threshold"], self.n_grains
                start = self.orientations[-2]
                for c in calls[-6:]:
                    c09.call_oracle(ctx, c, case, "suite")
                    ctx.check("hist:reference_is_start_of_update", bool(np.array_equal(c["prev"], start)), case)
                last = calls[-1]
                mask = last["f_in"] < chi / n
                ctx.count("frozen_grain_comparisons", int(mask.sum()))
                ctx.check("hist:stored_frozen_equals_previous", bool(np.array_equal(self.orientations[-1][mask], start[mask])), case)
                ctx.check("hist:stored_floor", float(self.fractions[-1].min()) >= chi / (n * (1 + chi)) * (1 - 1e-12), case)
                expA = last["a_out"].clip(-1, 1)
                expf = last["f_out"].clip(0, None)
                expf = expf / expf.sum()
                ctx.check("hist:stored_is_last_gbs_output", bool(np.array_equal(self.orientations[-1], expA))
                          and float(np.abs(self.fractions[-1] - expf).max()) <= 1e-12, case)
        except Exception as e:  # monitor bug: report, never disturb the test
            ctx.inconclusive.append(f"suite monitor error: {type(e).__name__}: {e}")
        return r

    M.update_orientations = update_orientations
    _STATE.update(ctx=ctx, st=st, mon=mon, out=out)


def pytest_runtest_setup(item):
    if _STATE:
        case = {"kind": "suite", "test": item.nodeid}
        _STATE["st"]["case"] = case
        _STATE["mon"].case = case


def pytest_runtest_teardown(item, nextitem):
    if _STATE:
        ctx = _STATE["ctx"]
        ctx.case({"kind": "suite", "test": item.nodeid}, nontrivial=True)
        if len(ctx.samples) < 3:
            ctx.sample({"kind": "suite", "test": item.nodeid}, updates_so_far=ctx.counters.get("suite_updates", 0))


def pytest_sessionfinish(session, exitstatus):
    if _STATE:
        ctx, mon, out = _STATE["ctx"], _STATE["mon"], _STATE["out"]
        ctx.count("rhs_evaluations_monitored", mon.n_rhs)
        os.makedirs(out, exist_ok=True)
        res = ctx.result()
        res["pytest_exitstatus"] = int(exitstatus)
        with open(os.path.join(out, f"{os.getpid()}.json"), "w") as f:
            json.dump(res, f)
