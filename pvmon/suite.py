"""'suite' shard: run the repository's own tests under the pytest plugin and merge what the monitors saw."""
from __future__ import annotations

import glob
import json
import os
import subprocess
import sys

from . import bootstrap


def run_suite_shard(ctx, prop, workers=8, select=None):
    rd = bootstrap.repo_dir()
    out = os.path.join(os.environ.get("PVMON_SCRATCH", "."), "suite-out")
    os.makedirs(out, exist_ok=True)
    env = dict(os.environ)
    env["PVMON_PLUGIN_PROP"] = prop
    env["PVMON_PLUGIN_OUT"] = out
    env["PYTHONPATH"] = os.pathsep.join([os.path.join(rd, "src"), bootstrap.VERIF_DIR, bootstrap.DEPS_DIR])
    env.pop("NUMBA_DISABLE_JIT", None)
    tests = select or ["tests/test_simple_shear_2d.py", "tests/test_vortex_2d.py", "tests/test_core.py", "tests/test_doctests.py",
                       "tests/test_diagnostics.py"]
    tests = [t for t in tests if os.path.exists(os.path.join(rd, t))]
    if not tests:
        ctx.inconclusive.append("repository tests not found for the suite-under-monitors shard")
        return
    cmd = [bootstrap.PYTHON, "-m", "pytest", "-q", "-p", "no:cacheprovider", "-p", "pvmon.pytest_plugin", "--timeout=1500",
           "-n", str(workers), "-o", "addopts="] + tests
    p = subprocess.run(cmd, cwd=rd, env=env, capture_output=True, text=True, timeout=float(ctx.spec.get("timeout", 3000)) - 60)
    tail = (p.stdout.strip().splitlines() or ["<no output>"])[-1]
    ctx.extra["suite_pytest_result"] = tail[:200]
    files = glob.glob(os.path.join(out, "*.json"))
    if not files:
        ctx.inconclusive.append(f"suite-under-monitors produced no monitor output (pytest said: {tail[:200]}; stderr: {p.stderr[-300:]})")
        return
    for fn in files:
        with open(fn) as f:
            r = json.load(f)
        for k in ("counters", "monitors", "failures", "classes", "sigcounts"):
            tgt = getattr(ctx, k)
            for kk, v in r.get(k, {}).items():
                tgt[kk] = tgt.get(kk, 0) + v
        for kk, v in r["extrema"].items():
            ctx.extreme(kk, v)
        for kk, v in r["minima"].items():
            ctx.minimum(kk, v)
        ctx.violations.extend(r["violations"])
        ctx.n_violations += r["n_violations"]
        ctx.evaluations += r["evaluations"]
        for i in range(r["nontrivial"]):
            ctx.nontrivial.add(f"{fn}:{i}")
        for s in r["samples"]:
            if len(ctx.samples) < 5:
                ctx.samples.append(s)
        ctx.inconclusive.extend(r["inconclusive"])
    ctx.count("suite_processes_reporting", len(files))
    if ctx.counters.get("suite_updates", 0) == 0:
        ctx.inconclusive.append("suite-under-monitors observed no update_orientations call")
