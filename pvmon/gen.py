"""Seeded, deliberately hostile workload generators. Every generator takes a numpy Generator and
returns (descriptor-friendly kind tag, array); arrays are always regenerated from (kind, seed)."""
from __future__ import annotations

import itertools

import numpy as np
from scipy.spatial.transform import Rotation

# ---------------------------------------------------------------------------------------------
# rotations / textures


def haar(rng, n=None):
    seed = int(rng.integers(1 << 31))
    if n is None:
        return Rotation.random(random_state=seed).as_matrix()
    return Rotation.random(n, random_state=seed).as_matrix()


def signed_perms():
    """All 24 proper signed permutation matrices (axis-aligned orientations)."""
    out = []
    for perm in itertools.permutations(range(3)):
        for signs in itertools.product((1, -1), repeat=3):
            m = np.zeros((3, 3))
            for i, (p, s) in enumerate(zip(perm, signs)):
                m[i, p] = s
            if np.linalg.det(m) > 0:
                out.append(m)
    return out


SIGNED_PERMS = signed_perms()
TWOFOLDS = [np.diag([1.0, -1.0, -1.0]), np.diag([-1.0, 1.0, -1.0]), np.diag([-1.0, -1.0, 1.0])]

TEXTURE_KINDS = ("random", "cluster_tight", "cluster", "cluster_wide", "girdle", "single",
                 "aligned", "near_aligned", "mixed")


def texture(rng, n, kind=None):
    """n orientation matrices (n,3,3) of the given class."""
    if kind is None:
        kind = TEXTURE_KINDS[int(rng.integers(len(TEXTURE_KINDS)))]
    if kind == "random":
        A = haar(rng, n)
    elif kind.startswith("cluster"):
        s = {"cluster_tight": 1e-3, "cluster": 0.05, "cluster_wide": 0.3}[kind]
        base = Rotation.from_matrix(haar(rng))
        A = (Rotation.from_rotvec(rng.normal(scale=s, size=(n, 3))) * base).as_matrix()
    elif kind == "girdle":
        base = Rotation.from_matrix(haar(rng))
        ax = np.eye(3)[int(rng.integers(3))]
        A = (Rotation.from_rotvec(rng.uniform(0, 2 * np.pi, (n, 1)) * ax[None]) * base).as_matrix()
    elif kind == "single":
        A = np.repeat(haar(rng)[None], n, 0)
    elif kind == "aligned":
        idx = rng.integers(24, size=n)
        A = np.stack([SIGNED_PERMS[i] for i in idx])
    elif kind == "near_aligned":
        idx = rng.integers(24, size=n)
        eps = 10.0 ** rng.uniform(-9, -3, size=(n, 1))
        R = Rotation.from_rotvec(rng.normal(size=(n, 3)) * eps).as_matrix()
        A = np.stack([SIGNED_PERMS[i] for i in idx]) @ R
    elif kind == "mixed":
        parts = [texture(rng, 1, k)[1] for k in rng.choice(TEXTURE_KINDS[:-1], size=n)]
        A = np.concatenate(parts, 0)
    else:
        raise ValueError(kind)
    return kind, np.ascontiguousarray(A, dtype=float)


VOLUME_KINDS = ("uniform", "dirichlet_sharp", "dirichlet", "dirichlet_flat", "dominant", "zeros", "ties")


def volumes(rng, n, kind=None):
    if kind is None:
        kind = VOLUME_KINDS[int(rng.integers(len(VOLUME_KINDS)))]
    if kind == "uniform" or n == 1:
        f = np.full(n, 1.0 / n)
    elif kind.startswith("dirichlet"):
        a = {"dirichlet_sharp": 0.1, "dirichlet": 1.0, "dirichlet_flat": 10.0}[kind]
        f = rng.dirichlet(np.full(n, a))
        f = np.maximum(f, 0)
    elif kind == "dominant":
        f = np.full(n, 1e-6)
        f[int(rng.integers(n))] = 1 - 1e-6 * (n - 1)
    elif kind == "zeros":
        f = rng.dirichlet(np.ones(n))
        z = rng.random(n) < 0.3
        if z.all():
            z[0] = False
        f[z] = 0.0
    elif kind == "ties":
        vals = rng.dirichlet(np.ones(max(2, n // 3)))
        f = vals[rng.integers(len(vals), size=n)]
    else:
        raise ValueError(kind)
    f = f / f.sum()
    return kind, f


# ---------------------------------------------------------------------------------------------
# velocity gradients

L_KINDS = ("simple_shear", "pure_shear", "axisym_comp", "axisym_ext", "general_tracefree",
           "general_trace", "rank1", "shear_plus_spin", "rotated_shear", "pure_spin")


def velgrad(rng, kind=None, unit=True):
    """A constant 3x3 velocity gradient. With unit=True it is scaled to max |eig D| = 1."""
    if kind is None:
        kind = L_KINDS[int(rng.integers(len(L_KINDS)))]
    L = np.zeros((3, 3))
    if kind == "simple_shear":
        i = int(rng.integers(3))
        j = (i + int(rng.integers(1, 3))) % 3
        L[i, j] = 2.0 * rng.choice([-1, 1])
    elif kind == "pure_shear":
        L = np.diag(rng.permutation([1.0, 0.0, -1.0]))
    elif kind == "axisym_comp":
        L = np.diag(rng.permutation([-1.0, 0.5, 0.5]))
    elif kind == "axisym_ext":
        L = np.diag(rng.permutation([1.0, -0.5, -0.5]))
    elif kind == "general_tracefree":
        L = rng.normal(size=(3, 3))
        L -= np.eye(3) * np.trace(L) / 3
    elif kind == "general_trace":
        L = rng.normal(size=(3, 3))
    elif kind == "rank1":
        a, b = rng.normal(size=3), rng.normal(size=3)
        L = np.outer(a, b)
    elif kind == "shear_plus_spin":
        L[0, 1] = 2.0
        w = rng.normal(size=3) * 2
        L += np.array([[0, -w[2], w[1]], [w[2], 0, -w[0]], [-w[1], w[0], 0]])
    elif kind == "pure_spin":
        # rigid rotation: the strain-rate tensor is exactly zero while L is not
        w = rng.normal(size=3) * 2
        L = np.array([[0, -w[2], w[1]], [w[2], 0, -w[0]], [-w[1], w[0], 0]])
    elif kind == "rotated_shear":
        Q = haar(rng)
        S = np.zeros((3, 3))
        S[0, 2] = 2.0
        L = Q @ S @ Q.T
    else:
        raise ValueError(kind)
    if unit:
        D = (L + L.T) / 2
        m = np.abs(np.linalg.eigvalsh(D)).max()
        if m > 0:
            L = L / m
    return kind, L


def max_rate(L):
    return float(np.abs(np.linalg.eigvalsh((L + L.T) / 2)).max())


# ---------------------------------------------------------------------------------------------
# phases / fabrics / params


def combos(pydrex):
    P, Fb = pydrex.core.MineralPhase, pydrex.core.MineralFabric
    return [(P.olivine, Fb.olivine_A), (P.olivine, Fb.olivine_B), (P.olivine, Fb.olivine_C),
            (P.olivine, Fb.olivine_D), (P.olivine, Fb.olivine_E), (P.enstatite, Fb.enstatite_AB)]


def exponents(rng):
    """(stress exponent p, deformation exponent n) in their documented ranges [1, 2] x [2, 5]: mostly continuous,
    otherwise end points, whole numbers (odd and even) and the one point where the two coincide (p = n = 2)."""
    r = rng.random()
    if r < 0.7:
        return float(rng.uniform(1, 2)), float(rng.uniform(2, 5))
    if r < 0.78:
        return 2.0, 2.0
    return float(rng.choice([1.0, 1.5, 2.0])), float(rng.choice([2.0, 3.0, 3.5, 4.0, 5.0]))


def drex_params(rng, hostile=True):
    """Physical parameter set as a plain dict of floats (descriptor friendly)."""
    pe, ne = exponents(rng)
    p = {
        # documented ranges, with their end points, whole numbers and the coincidence p = n drawn explicitly
        "stress_exponent": pe,
        "deformation_exponent": ne,
        "nucleation_efficiency": float(rng.choice([0.0, 5.0, 50.0]) if rng.random() < 0.5 else rng.uniform(0, 10)),
        "gbm_mobility": float(rng.choice([0.0, 10.0, 125.0, 200.0]) if rng.random() < 0.6 else rng.uniform(0, 200)),
        "gbs_threshold": float(rng.choice([0.0, 0.3, 0.9]) if rng.random() < 0.6 else rng.uniform(0, 0.9)),
    }
    return p


def params_dict(pydrex, phase, base=None, **over):
    d = pydrex.core.DefaultParams().as_dict()
    if base:
        d.update(base)
    d["phase_assemblage"] = (phase,)
    d["phase_fractions"] = (1.0,)
    d.update(over)
    return d


def partition(rng, t0, t1, N, equal=None):
    if equal is None:
        equal = rng.random() < 0.5
    if equal or N == 1:
        return np.linspace(t0, t1, N + 1)
    w = rng.dirichlet(np.full(N, 2.0))
    w = np.maximum(w, 1e-3)
    w /= w.sum()
    ts = t0 + (t1 - t0) * np.concatenate([[0.0], np.cumsum(w)])
    ts[-1] = t1
    return ts
