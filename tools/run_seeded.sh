#!/bin/bash
# Run checks against a seeded change without touching /repo: VERIF_REPO = worktree with the patch applied.
#   tools/run_seeded.sh <ID> <tier> <check ids...>
ID=$1; TIER=$2; shift 2
WT=/tmp/seedrun/$ID
if [ ! -d $WT ]; then
  mkdir -p /tmp/seedrun && git -C /repo worktree add -q --detach $WT HEAD && git -C $WT apply /verif/seeded/$ID/patch.diff || { echo "cannot prepare $WT"; exit 2; }
fi
for c in "$@"; do
  VERIF_REPO=$WT PVMON_EVIDENCE_DIR=/tmp/seedrun/evidence-$ID ./vcheck $c --tier $TIER > /tmp/seedrun/$ID.$c.$TIER.log 2>&1; rc=$?
  echo "seeded=$ID check=$c tier=$TIER rc=$rc $(grep -E '^VIOLATION|^INCONCLUSIVE' /tmp/seedrun/$ID.$c.$TIER.log | head -2 | cut -c1-120 | tr '\n' ' ') $(grep -m1 'sub-oracle' /tmp/seedrun/$ID.$c.$TIER.log | cut -c1-200)"
done
