#!/venv/bin/python
"""Mutation validation: apply one deliberate property-breaking (or property-preserving) edit to a
scratch copy of /repo (never to /repo or /verif), run the relevant quick checks against the copy
(VERIF_REPO), record caught / missed, delete the copy.

  tools/mutate.py [--only ID,...] [--jobs N] [--tier quick] [--tests]   -> tools/mutants_result.json

Mutants are exact-string substitutions (must match exactly once) listed in tools/mutants.json:
  {"id", "file", "old", "new", "props": [...], "expect": "caught"|"silent", "note"}
"""
import argparse
import concurrent.futures as cf
import json
import os
import shutil
import subprocess
import sys
import tempfile
import time

HERE = os.path.dirname(os.path.abspath(__file__))
VERIF = os.path.dirname(HERE)


def run_one(m, tier, run_tests):
    tmp = tempfile.mkdtemp(prefix="pvmut-")
    res = {"id": m["id"], "props": m["props"], "expect": m.get("expect", "caught"), "note": m.get("note", ""), "runs": {}}
    try:
        dst = os.path.join(tmp, "repo")
        os.makedirs(dst)
        shutil.copytree("/repo/src", os.path.join(dst, "src"), ignore=shutil.ignore_patterns("__pycache__", "*.egg-info"))
        for edit in m.get("edits", [m]):
            path = os.path.join(dst, edit["file"])
            s = open(path).read()
            if s.count(edit["old"]) != 1:
                res["error"] = f"pattern matches {s.count(edit['old'])} times in {edit['file']}"
                return res
            open(path, "w").write(s.replace(edit["old"], edit["new"]))
        # must still import / compile
        for prop in m["props"]:
            env = dict(os.environ, VERIF_REPO=dst, PVMON_EVIDENCE_DIR=os.path.join(tmp, "evidence"), VERIF_JOBS=os.environ.get("MUT_SHARD_JOBS", "6"))
            t0 = time.time()
            p = subprocess.run([os.path.join(VERIF, "vcheck"), prop, "--tier", tier], env=env, capture_output=True, text=True, timeout=3600)
            lines = [ln for ln in p.stdout.splitlines() if ln.startswith(("VIOLATION", "INCONCLUSIVE", "  sub-oracle"))]
            res["runs"][prop] = {"rc": p.returncode, "wall": round(time.time() - t0, 1), "lines": [ln[:300] for ln in lines[:4]]}
        if run_tests:
            shutil.copytree("/repo/tests", os.path.join(dst, "tests"))
            for f in ("pyproject.toml", "setup.py"):
                if os.path.exists(os.path.join("/repo", f)):
                    shutil.copy(os.path.join("/repo", f), dst)
            env = dict(os.environ, PYTHONPATH=os.path.join(dst, "src"))
            p = subprocess.run(["/venv/bin/python", "-m", "pytest", "-q", "-p", "no:cacheprovider", "-x", "--timeout=900", "-n", "8"],
                               cwd=dst, env=env, capture_output=True, text=True, timeout=3600)
            res["suite"] = p.stdout.strip().splitlines()[-1][:200] if p.stdout.strip() else f"rc={p.returncode}"
    except Exception as e:
        res["error"] = f"{type(e).__name__}: {e}"
    finally:
        shutil.rmtree(tmp, ignore_errors=True)
    rcs = [r["rc"] for r in res["runs"].values()]
    res["caught_by"] = [p for p, r in res["runs"].items() if r["rc"] == 1]
    res["outcome"] = "caught" if 1 in rcs else ("inconclusive" if 2 in rcs else "silent")
    res["ok"] = (res["outcome"] == res["expect"]) and "error" not in res
    return res


def main():
    ap = argparse.ArgumentParser()
    ap.add_argument("--only", default="")
    ap.add_argument("--jobs", type=int, default=3)
    ap.add_argument("--tier", default="quick")
    ap.add_argument("--tests", action="store_true")
    ap.add_argument("--out", default=os.path.join(HERE, "mutants_result.json"))
    a = ap.parse_args()
    muts = json.load(open(os.path.join(HERE, "mutants.json")))["mutants"]
    if a.only:
        want = set(a.only.split(","))
        muts = [m for m in muts if m["id"] in want or any(p in want for p in m["props"])]
    results = []
    with cf.ThreadPoolExecutor(a.jobs) as ex:
        futs = {ex.submit(run_one, m, a.tier, a.tests): m for m in muts}
        for f in cf.as_completed(futs):
            r = f.result()
            results.append(r)
            print(f"{'OK ' if r['ok'] else 'BAD'} {r['id']:<38} expect={r['expect']:<7} outcome={r['outcome']:<12} caught_by={r['caught_by']} "
                  f"{r.get('error','')} {r.get('suite','')}", flush=True)
    results.sort(key=lambda r: r["id"])
    prev = {}
    if a.only and os.path.exists(a.out):
        prev = {r["id"]: r for r in json.load(open(a.out))["results"]}
    for r in results:
        prev[r["id"]] = r
    allr = sorted(prev.values(), key=lambda r: r["id"]) if a.only else results
    json.dump({"tier": a.tier, "results": allr}, open(a.out, "w"), indent=1)
    bad = [r["id"] for r in results if not r["ok"]]
    print(f"{len(results) - len(bad)}/{len(results)} as expected; unexpected: {bad}")
    return 1 if bad else 0


if __name__ == "__main__":
    sys.exit(main())
