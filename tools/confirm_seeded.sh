#!/bin/bash
# Confirm a sub-agent's seeded change in its scratch worktree /tmp/seed/<ID>:
#   demo fails with the change, passes without; the unedited test-suite passes with the change.
# Then archive it under /verif/seeded/<ID>/ (patch.diff, demo.py, notes.md, meta.json).
ID=$1; ROUND=${2:-1}; if [ "$ROUND" = "2" ]; then WT=/tmp/seed2/$ID; OUT=/verif/seeded/${ID}b; elif [ "$ROUND" = "3" ]; then WT=/tmp/seed3/$ID; OUT=/verif/seeded/${ID}c; elif [ "$ROUND" = "4" ]; then WT=/tmp/seed4/$ID; OUT=/verif/seeded/${ID}d; elif [ "$ROUND" = "5" ]; then WT=/tmp/seed5/$ID; OUT=/verif/seeded/${ID}e; else WT=/tmp/seed/$ID; OUT=/verif/seeded/$ID; fi
set -u
cd $WT || exit 2
[ -f SEEDED/patch.diff ] || { echo "$ID: no patch"; exit 2; }
git diff -- src > /tmp/seed-$ROUND-$ID.current.diff
if ! diff -q /tmp/seed-$ROUND-$ID.current.diff SEEDED/patch.diff >/dev/null; then echo "$ID: NOTE patch.diff differs from applied diff; using applied diff"; fi
run_demo() { (cd $WT && PYTHONPATH=$WT/src timeout 1500 /venv/bin/python SEEDED/demo.py > /tmp/seed-$ROUND-$ID.demo.$1.log 2>&1; echo $?); }
with=$(run_demo with)
git checkout -q -- src          # (no git stash: the stash is shared between worktrees of one repository)
without=$(run_demo without)
git apply /tmp/seed-$ROUND-$ID.current.diff
git diff -- src > /tmp/seed-$ROUND-$ID.after.diff
cmp -s /tmp/seed-$ROUND-$ID.current.diff /tmp/seed-$ROUND-$ID.after.diff || { echo "$ID: worktree state changed"; exit 2; }
suite=$(cd $WT && PYTHONPATH=$WT/src /venv/bin/python -m pytest -q -p no:cacheprovider -n 8 --timeout=900 2>&1 | tail -1)
touched=$(git status --porcelain -- tests | wc -l)
echo "$ID demo_with=$with demo_without=$without tests_touched=$touched suite='$suite'"
if [ "$with" != "0" ] && [ "$without" = "0" ] && [ "$touched" = "0" ] && echo "$suite" | grep -q "74 passed" && ! echo "$suite" | grep -q failed; then
  mkdir -p $OUT; cp /tmp/seed-$ROUND-$ID.current.diff $OUT/patch.diff; cp SEEDED/demo.py $OUT/demo.py; cp SEEDED/notes.md $OUT/notes.md 2>/dev/null
  echo "$ID CONFIRMED"
else
  echo "$ID NOT CONFIRMED"; exit 1
fi
