#!/bin/bash
# Run every claimed check at the given tier/seed and print one summary line per check.
#   tools/runall.sh [quick|thorough] [seed] [ids...]
cd "$(dirname "$0")/.."
TIER=${1:-quick}; SEED=${2:-0}; shift 2 2>/dev/null
IDS=${@:-$(seq -f "C%02g" 1 20)}
mkdir -p /tmp/pvmon-logs
rc_all=0
for id in $IDS; do
  t0=$(date +%s)
  VERIF_SEED=$SEED ./vcheck $id --tier $TIER > /tmp/pvmon-logs/$id.$TIER.$SEED.log 2>&1
  rc=$?
  t1=$(date +%s)
  echo "$id tier=$TIER seed=$SEED rc=$rc wall=$((t1-t0))s $(grep -c '^KNOWN-FINDING' /tmp/pvmon-logs/$id.$TIER.$SEED.log) known; $(grep -E 'VIOLATION|INCONCLUSIVE' /tmp/pvmon-logs/$id.$TIER.$SEED.log | head -3 | cut -c1-200 | tr '\n' ' ')"
  [ $rc -ne 0 ] && rc_all=1
done
exit $rc_all
