#!/venv/bin/python
"""Regenerate /verif/MANIFEST.json from the table below (keeps it schema-valid at all times).
A property is claimed iff pvmon/checks/cNN.py exists and it is in CLAIMED."""
import json
import os
import sys

HERE = os.path.dirname(os.path.dirname(os.path.abspath(__file__)))

TECH = {
    "C01": ("icontract postcondition on Mineral.update_orientations + valid-texture oracle on every stored snapshot + extract_vars/derivatives recording wrappers inside real LSODA integrations",
            "runtime contracts and invariant hooks over hostile update histories"),
    "C02": ("independent reference model of the published D-Rex rates checked against every monitored core.derivatives call; compiled vs NUMBA_DISABLE_JIT execution; NUMBA_BOUNDSCHECK shard",
            "reference-model monitor + differential execution (JIT vs interpreted) + bounds-check sanitizer mode"),
    "C03": ("post-condition wrapper on core.derivatives (skew spin, zero net volume rate, zero-volume grains, finiteness) on direct hostile calls and on every RHS evaluation inside the solver; relational linearity checks; degenerate-input catalogue; bounds-check and FP-exception shards",
            "runtime post-condition monitor + relational monitor + sanitizer-like modes"),
    "C04": ("paired-execution monitor: rotated frame / lattice two-fold relabelled runs of derivatives and of full update histories compared snapshot by snapshot",
            "relational (paired-execution) runtime monitor"),
    "C05": ("paired-execution monitor: (k*L, t/k) rescaled histories compared snapshot by snapshot, k in [1e-16, 1e3]",
            "relational (paired-execution) runtime monitor"),
    "C06": ("returned F compared with an independent high-accuracy integration (expm / DOP853) of dF/dt = L(t,x(t))F; independence from mineral/regime; update_all",
            "reference-model monitor on return values"),
    "C07": ("before/after snapshot comparison under null forcing; exhaustive exception oracle over regime/phase/fabric ordinals; failpoints (raising velocity callable, mid-integration regime switch) with history-untouched check",
            "invariant monitor + exception oracle + source-free fault injection"),
    "C08": ("paired-execution monitor: multiphase vs single-phase with phi*M*, permuted assemblages, interleaved/ordered update_all, determinism (bit-identical)",
            "relational (paired-execution) runtime monitor"),
    "C09": ("recording wrapper on utils.apply_gbs (all arguments copied before, results after) with per-call oracle and history oracle on the stored snapshots",
            "recording wrapper + offline history checker"),
    "C10": ("voigt_averages compared with an independent einsum average with phase looked up by identity; moduli, co-rotation, permutation, rejection",
            "reference-model monitor"),
    "C11": ("algebraic identity oracles on pydrex.tensors functions over hostile inputs; projectors and index maps exhaustively materialised",
            "runtime identity oracles (+ exhaustive finite sub-spaces)"),
    "C12": ("elasticity_components under frame rotation (paired execution) + independent invariants", "relational + reference-model monitor"),
    "C13": ("identity/relational oracles on symmetry_pgr, bingham_average, coaxial_index, finite_strain", "relational + reference-model monitor"),
    "C14": ("relational oracles on misorientation_index with a defect-aware reference model for known findings; schedule monitor with injected worker delays on misorientation_indices (order preservation under out-of-order completion)",
            "relational monitor + schedule monitor with delay injection"),
    "C15": ("postcondition on resample_orientations: membership by unique ids, zero-volume never drawn, multinomial law (chi-square), determinism, malformed shapes",
            "runtime contract + statistical oracle"),
    "C16": ("save_scsv -> read_scsv round trip against an executable model of the format over generated schemas/data; single-fault injection must raise SCSVError",
            "model-based round-trip monitor + fault injection"),
    "C17": ("save/load/from_file histories against a sequential model of the NPZ archive; rejection without writing (directory scans)",
            "history checker against a sequential model"),
    "C18": ("finite-difference Jacobian oracle on the flow callables; pathline clauses re-checked by independent forward integration; strain_increment vs eigvalsh",
            "reference-model monitor"),
    "C19": ("preset/record oracles enumerated at run time; generated TOML configurations (subsets of optional keys) parsed and compared with documented defaults; single-fault configs must raise ConfigError",
            "generated-configuration monitor + fault injection"),
    "C20": ("round-trip and independent-formula oracles on to_spherical/to_cartesian, poles, lambert_equal_area, point_density",
            "reference-model monitor"),
}

LEVEL_NOTE = ("Trusted base: CPython, NumPy/SciPy, numba's compilation of the current sources, and the harness's own reference "
              "models/generators. Universal quantifiers are sampled (seeded, hostile classes), not exhausted; a verdict of 'held' "
              "means held on the executions listed in the evidence file.")


def main():
    claimed = []
    na = []
    for i in range(1, 21):
        pid = f"C{i:02d}"
        if os.path.exists(os.path.join(HERE, "pvmon", "checks", f"{pid.lower()}.py")):
            text, tech = TECH[pid]
            claimed.append({
                "property_id": pid,
                "quick_cmd": f"./vcheck {pid} --tier quick",
                "thorough_cmd": f"./vcheck {pid} --tier thorough",
                "evidence_file": f"/verif/evidence/{pid}.json",
                "replay_cmd_template": f"./vcheck {pid} --replay {{path}}",
                "engine": "pvmon",
                "level_claimed": {"category": "exploration", "text": text, "design_ref": f"DESIGN.md section 4 / {pid}"},
                "level_note": LEVEL_NOTE,
                "technique": tech,
            })
        else:
            na.append({"property_id": pid, "reason": "check not built yet (work in progress); will be decided by runtime monitoring as designed in DESIGN.md section 4"})
    man = {
        "version": 1,
        "setup_cmd": "/venv/bin/pip install --no-index --find-links /opt/veriftools/wheels --target /verif/.deps --quiet icontract deal jsonschema",
        "hooks": {
            "guard": "PYDREX_VERIF",
            "enable": "no source hooks are needed: every observation point is reached by wrapping module/class attributes from the harness (PYDREX_VERIF is reserved and unused)",
            "baseline_off_cmd": "cd /repo && /venv/bin/python -m pytest -ra -q -p no:cacheprovider --timeout=900 --continue-on-collection-errors",
            "source_commits": [],
            "add_only": True,
        },
        "engines": [{"name": "pvmon", "path": "/verif/pvmon", "serves_properties": [c["property_id"] for c in claimed],
                     "kind_free_text": "runtime monitoring harness: recording wrappers/contracts on the real functions, reference-model and paired-execution oracles, shard fan-out with watchdogs, sanitizer-like numba modes"}],
        "checks": claimed,
        "notes": "Known (unrepaired) findings K1-K10 (K10 also under C04/C05/C08, where it shows through paired F comparisons) are listed in /verif/known_findings.json (mechanism key + defect model evaluated in the check; printed as KNOWN-FINDING); 22 genuine defects were repaired by fix: commits in /repo (same file, 'fixed'). Exit codes: 0 held, 1 violation (VIOLATION line + replay file), 2 inconclusive (never on the unchanged tree). 100 independent seeded changes with demos are archived under /verif/seeded (DESIGN.md 9.5-9.12; tools/regress_seeded.sh re-runs each against its property's check); own mutant catalogue in tools/mutants.json (results tools/mutants_result.json).",
        "not_applicable": na,
    }
    with open(os.path.join(HERE, "MANIFEST.json"), "w") as f:
        json.dump(man, f, indent=1)
    try:
        sys.path.append(os.path.join(HERE, ".deps"))
        import jsonschema

        jsonschema.validate(man, json.load(open("/root/.vp/MANIFEST.schema.json")))
        print("MANIFEST.json valid;", len(claimed), "claimed,", len(na), "not yet")
    except ImportError:
        print("written (jsonschema unavailable)")


if __name__ == "__main__":
    main()
