#!/venv/bin/python
"""Source of tools/mutants.json (kept as Python for readable multi-line patterns)."""
import json
import os

M = []


def mut(id, file, old, new, props, expect="caught", note=""):
    M.append({"id": id, "file": "src/pydrex/" + file, "old": old, "new": new, "props": props, "expect": expect, "note": note})


def mut2(id, edits, props, expect="caught", note=""):
    M.append({"id": id, "edits": [{"file": "src/pydrex/" + f, "old": o, "new": n} for f, o, n in edits], "props": props,
              "expect": expect, "note": note})


# ---------------------------------------------------------------- C01
mut("c01-drop-orientation-clip", "utils.py", ".reshape((n_grains, 3, 3)).clip(-1, 1)", ".reshape((n_grains, 3, 3))", ["C01"],
    note="extract_vars no longer clips orientation entries")
mut("c01-drop-renormalisation", "utils.py", "    fractions /= fractions.sum()\n    return deformation_gradient, orientations, fractions",
    "    return deformation_gradient, orientations, fractions", ["C01"], note="extract_vars no longer renormalises")
mut("c01-append-inside-loop", "minerals.py", "        while solver.status == \"running\":\n            perform_step(solver)\n",
    "        while solver.status == \"running\":\n            perform_step(solver)\n            self.orientations.append(_utils.extract_vars(solver.y, self.n_grains)[1])\n            self.fractions.append(_utils.extract_vars(solver.y, self.n_grains)[2])\n",
    ["C01"], note="more than one snapshot per update")
mut("c01-inplace-overwrite-previous", "minerals.py", "        self.orientations.append(orientations)\n        self.fractions.append(fractions)\n        return deformation_gradient",
    "        self.orientations[-1][...] = orientations\n        self.orientations.append(orientations)\n        self.fractions.append(fractions)\n        return deformation_gradient",
    ["C01", "C09"], note="earlier snapshot altered in place")
mut("c01-nonskew-rate", "core.py", "            orientations_diff[grain_index] = orientation_change\n", "            orientations_diff[grain_index] = orientation_change + 1e-2 * orientations[grain_index]\n",
    ["C01", "C03", "C02"], note="rate gets a symmetric part")
mut("c01-loose-rtol", "minerals.py", "rtol=kwargs.pop(\"rtol\", 1e-6)", "rtol=kwargs.pop(\"rtol\", 3e-2)", ["C01", "C06"],
    note="solver tolerance loosened beyond the stated bound; only long/large-strain histories exceed it")
mut("c01-rtol-1e-5-preserving", "minerals.py", "rtol=kwargs.pop(\"rtol\", 1e-6)", "rtol=kwargs.pop(\"rtol\", 1e-5)", ["C01", "C06", "C04"], expect="silent",
    note="property-preserving: a different but valid tolerance")
mut("c01-seed-ignored", "minerals.py", "                self.n_grains, random_state=self.seed\n", "                self.n_grains, random_state=None\n", ["C01"],
    note="default texture no longer reproducible from its seed")
mut("c01-initial-snapshot-scaled", "minerals.py", "        self.fractions.append(self.fractions_init)\n        self.orientations.append(self.orientations_init)\n",
    "        self.fractions.append(self.fractions_init)\n        self.orientations.append(np.abs(self.orientations_init) * 0 + self.orientations_init * (1 + 1e-2))\n", ["C01"],
    note="initial snapshot scaled: not orthonormal")

# ---------------------------------------------------------------- C02
crss = {"A": "np.array([1, 2, 3, np.inf])", "B": "np.array([3, 2, 1, np.inf])", "C": "np.array([3, 2, np.inf, 1])",
        "D": "np.array([1, 1, 3, np.inf])", "E": "np.array([3, 1, 2, np.inf])"}
mut("c02-crss-B-entry", "core.py", crss["B"], "np.array([3, 2.5, 1, np.inf])", ["C02"], note="B-type CRSS row (invisible to the suite)")
mut("c02-crss-D-entry", "core.py", crss["D"], "np.array([1, 1, 2, np.inf])", ["C02"])
mut("c02-crss-E-swap", "core.py", crss["E"], "np.array([3, 2, 1, np.inf])", ["C02"])
mut("c02-crss-C-entry", "core.py", crss["C"], "np.array([3, 1, np.inf, 1])", ["C02"])
mut("c02-exponent-n", "core.py", "    slip_rates[i_min] = ratio_min * np.abs(ratio_min) ** (deformation_exponent - 1)",
    "    slip_rates[i_min] = ratio_min * np.abs(ratio_min) ** (deformation_exponent)", ["C02"])
mut("c02-historical-j+2", "core.py", "            k = (j + 1) % 3\n", "            k = (j + 2) % 3\n", ["C02"], expect="silent",
    note="the historical D-Rex indexing bug as coded here only re-enumerates the same three antisymmetric pairs: an equivalent mutant")
mut("c02-schmid-factor2", "core.py", "            deformation_rate[i, j] = 2 * (", "            deformation_rate[i, j] = 1 * (", ["C02"],
    note="G halves, gamma doubles: spin unchanged but the dislocation densities (|beta*gamma|^(p/n)) change")
mut("c02-spin-half", "core.py", "            - (deformation_rate[s, r] - deformation_rate[r, s]) * slip_rate_softest\n        ) / 2",
    "            - (deformation_rate[s, r] - deformation_rate[r, s]) * slip_rate_softest\n        ) / 1", ["C02"])
mut("c02-damping-0.5", "core.py", "            orientations_diff[grain_index] = 0.3 * orientation_change", "            orientations_diff[grain_index] = 0.5 * orientation_change", ["C02"])
mut("c02-abs-dropped", "core.py", "    slip_rates[i_int] = ratio_int * np.abs(ratio_int) ** (deformation_exponent - 1)",
    "    slip_rates[i_int] = ratio_int * (ratio_int) ** (deformation_exponent - 1)", ["C02", "C03"], note="NaN for negative ratios")
mut("c02-exponent-n-over-p", "core.py", "            stress_exponent / deformation_exponent\n", "            deformation_exponent / stress_exponent\n", ["C02"])
mut("c02-swap-systems-2-3", "core.py", "            invariants[2] += strain_rate[i, j] * orientation[2, i] * orientation[1, j]\n            # (100)[001]\n            invariants[3] += strain_rate[i, j] * orientation[2, i] * orientation[0, j]",
    "            invariants[3] += strain_rate[i, j] * orientation[2, i] * orientation[1, j]\n            # (100)[001]\n            invariants[2] += strain_rate[i, j] * orientation[2, i] * orientation[0, j]", ["C02"])
mut("c02-exp-rho-not-squared", "core.py", "            -nucleation_efficiency * dislocation_density**2\n", "            -nucleation_efficiency * dislocation_density\n", ["C02"])
mut("c02-revert-F3", "core.py", "    for i in slip_indices[1:]:\n", "    for i in range(3):\n", ["C02"], note="strain energy over array positions 0-2")
mut("c02-jit-vs-interp-nan-test", "core.py", "    if -1e-15 < denominator < 1e-15:\n        return 0.0\n    return enumerator / denominator",
    "    if -1e-15 < denominator < 1e-15:\n        return 0.0\n    out = enumerator / denominator\n    if out != out:\n        return 0.0\n    return out", ["C02"],
    expect="silent", note="engine-dependent NaN test; no NaN reaches it on valid inputs -> must stay silent")

# ---------------------------------------------------------------- C03
mut("c03-mean-energy-unweighted", "core.py", "        mean_energy = np.sum(fractions * strain_energies)\n        # Strain energy residual.",
    "        mean_energy = np.mean(strain_energies)\n        # Strain energy residual.", ["C03", "C02"])
mut("c03-no-fraction-factor", "core.py", "        fractions_diff = volume_fraction * gbm_mobility * fractions * strain_residuals\n        return orientations_diff, fractions_diff\n    elif regime == DeformationRegime.sliding_dislocation:",
    "        fractions_diff = volume_fraction * gbm_mobility * strain_residuals\n        return orientations_diff, fractions_diff\n    elif regime == DeformationRegime.sliding_dislocation:", ["C03"])
mut("c03-spin-index-typo", "core.py", "            (velocity_gradient[s, r] - velocity_gradient[r, s])\n", "            (velocity_gradient[s, r] - velocity_gradient[s, r] * 0.5 - velocity_gradient[r, s])\n", ["C03", "C02"],
    expect="caught", note="spin vector wrong but still skew -> C03 silent, C02 catches")
mut("c03-remove-denominator-guard", "core.py", "    if -1e-15 < denominator < 1e-15:\n        return 0.0\n", "", ["C03"], note="NaN/ZeroDivision on unresolved grains")
mut("c03-fraction-squared", "core.py", "        strain_residuals = 0.3 * (mean_energy - strain_energies)\n        fractions_diff = volume_fraction * gbm_mobility * fractions * strain_residuals",
    "        strain_residuals = 0.3 * (mean_energy - strain_energies)\n        fractions_diff = volume_fraction**2 * gbm_mobility * fractions * strain_residuals", ["C03"])
mut("c03-mobility-plus-one", "core.py", "        fractions_diff = volume_fraction * gbm_mobility * fractions * strain_residuals\n        return orientations_diff, fractions_diff\n    elif regime == DeformationRegime.sliding_dislocation:",
    "        fractions_diff = volume_fraction * (gbm_mobility + 1) * fractions * strain_residuals\n        return orientations_diff, fractions_diff\n    elif regime == DeformationRegime.sliding_dislocation:", ["C03"])
mut("c03-revert-F2", "core.py", "        if slip_invariants[slip_indices[-1]] == 0:\n            return np.zeros((3, 3)), 0.0\n", "", ["C03"], note="ZeroDivisionError for C-type aligned grains")
mut("c03-orientation-transposed-in-rate", "core.py", "                        PERMUTATION_SYMBOL[q, r, s] * orientation[p, s] * spin_vector[r]",
    "                        PERMUTATION_SYMBOL[q, r, s] * orientation[s, p] * spin_vector[r]", ["C03", "C02"], note="A^T . spin instead of A . spin: not tangent to SO(3)")

# ---------------------------------------------------------------- C04
mut("c04-transpose-L-in-gamma", "core.py", "            enumerator += 2 * deformation_rate[j, L] * velocity_gradient[j, L]", "            enumerator += 2 * deformation_rate[j, L] * velocity_gradient[L, j]", ["C04", "C02"])
mut("c04-index-typo-invariant", "core.py", "            invariants[0] += strain_rate[i, j] * orientation[0, i] * orientation[1, j]", "            invariants[0] += strain_rate[i, j] * orientation[i, 0] * orientation[1, j]", ["C04", "C02"])
mut("c04-abs-ratio", "core.py", "    slip_rates[i_min] = ratio_min * np.abs(ratio_min) ** (deformation_exponent - 1)", "    slip_rates[i_min] = np.abs(ratio_min) * np.abs(ratio_min) ** (deformation_exponent - 1)", ["C04", "C02"],
    note="sign lost: two-fold invariance fails")
mut("c04-nonobjective-rate-scale", "minerals.py", "            strain_rate_max = np.abs(la.eigvalsh(strain_rate)).max()\n", "            strain_rate_max = np.abs(strain_rate).max()\n", ["C04", "C05"],
    note="non-dimensionalisation by a frame-dependent scalar: C04 breaks (exponent-n energies are not scale-free), C05 stays intact")
mut("c04-signed-energy", "core.py", "        ) * np.abs(slip_rates[i] * slip_rate_softest) ** (\n", "        ) * (slip_rates[i] * slip_rate_softest) ** (\n", ["C04", "C02", "C03"], note="energy with signed slip rate")

# ---------------------------------------------------------------- C05
mut("c05-forget-rate-on-fractions", "minerals.py", "                    fractions_diff * strain_rate_max,\n", "                    fractions_diff,\n", ["C05"])
mut("c05-forget-rate-on-orientations", "minerals.py", "                    orientations_diff.flatten() * strain_rate_max,\n", "                    orientations_diff.flatten(),\n", ["C05"])
mut("c05-divide-L-not-D", "minerals.py", "                strain_rate=strain_rate / strain_rate_max,\n", "                strain_rate=strain_rate,\n", ["C05"])
mut("c05-absolute-first-step", "minerals.py", "first_step=kwargs.pop(\"first_step\", np.abs(time_end - time_start) * 1e-1)", "first_step=kwargs.pop(\"first_step\", min(1e-3, np.abs(time_end - time_start)))", ["C05"],
    expect="silent", note="absolute first step: results differ only within solver tolerance -> property still holds (NOTE watermark expected)")
mut("c05-rate-floor", "minerals.py", "            if strain_rate_max == 0:\n", "            if strain_rate_max < 1e-12:\n", ["C05"], note="geological rates (k <= 1e-12) treated as zero strain rate")

# ---------------------------------------------------------------- C06
mut("c06-F-at-L", "minerals.py", "            deformation_gradient_diff = velocity_gradient @ deformation_gradient\n", "            deformation_gradient_diff = deformation_gradient @ velocity_gradient\n", ["C06"])
mut("c06-position-at-start", "minerals.py", "            position = get_position(t)\n", "            position = get_position(time_start)\n", ["C06"], note="only position-dependent fields notice")
mut("c06-return-initial-F", "minerals.py", "        self.fractions.append(fractions)\n        return deformation_gradient", "        self.fractions.append(fractions)\n        return y_start[:9].reshape((3, 3))", ["C06"])
mut("c06-update_all-chains-F", "minerals.py", "        new_deformation_gradient = mineral.update_orientations(\n            params=params,\n            deformation_gradient=deformation_gradient,",
    "        new_deformation_gradient = deformation_gradient = mineral.update_orientations(\n            params=params,\n            deformation_gradient=deformation_gradient,", ["C06", "C08"], note="double deformation for the second mineral")
mut("c06-reshape-order-F", "utils.py", "    deformation_gradient = y[:9].reshape((3, 3))\n", "    deformation_gradient = y[:9].reshape((3, 3)).transpose()\n", ["C06"])
mut("c06-time-at-start", "minerals.py", "            velocity_gradient = get_velocity_gradient(t, position)\n", "            velocity_gradient = get_velocity_gradient(time_start, position)\n", ["C06"], note="only time-dependent fields notice")

# ---------------------------------------------------------------- C07
mut("c07-revert-F1", "core.py", "    elif regime == DeformationRegime.max_viscosity:\n        # Do absolutely nothing, all derivatives are zero.\n        return (\n            np.zeros((n_grains, 3, 3)),",
    "    elif regime == DeformationRegime.max_viscosity:\n        # Do absolutely nothing, all derivatives are zero.\n        return (\n            np.repeat(np.eye(3), n_grains).reshape(3, 3, n_grains).transpose(),", ["C07", "C01"])
mut("c07-revert-F4", "minerals.py", "            if strain_rate_max == 0:\n                # No deformation: avoid 0/0 in the nondimensionalisation below.\n                strain_rate_max = 1.0\n", "", ["C07"])
mut("c07-unsupported-returns-zeros", "core.py", "    elif regime == DeformationRegime.sliding_dislocation:\n        raise ValueError(\"this deformation mechanism is not yet supported.\")",
    "    elif regime == DeformationRegime.sliding_dislocation:\n        return np.zeros((n_grains, 3, 3)), np.zeros(n_grains)", ["C07"])
mut2("c07-placeholder-snapshot", [
    ("minerals.py", "        perform_step(solver)\n        while solver.status == \"running\":", "        self.orientations.append(self.orientations[-1])\n        self.fractions.append(self.fractions[-1])\n        perform_step(solver)\n        while solver.status == \"running\":"),
    ("minerals.py", "        self.orientations.append(orientations)\n        self.fractions.append(fractions)\n        return deformation_gradient", "        self.orientations[-1] = orientations\n        self.fractions[-1] = fractions\n        return deformation_gradient"),
    ("minerals.py", "                self.orientations[-1],\n                self.n_grains,\n            )\n            solver.y[9:]", "                self.orientations[-2],\n                self.n_grains,\n            )\n            solver.y[9:]"),
    ("minerals.py", "                self.orientations[-1].flatten(),\n                self.fractions[-1],\n", "                self.orientations[-1].flatten(),\n                self.fractions[-1],\n"),
], ["C07", "C01", "C09"], note="placeholder snapshot appended before the solver runs and filled in afterwards: a failed update leaves it behind")
mut("c07-default-branch-zeros", "core.py", "    else:\n        raise ValueError(f\"regime must be a valid `DeformationRegime`, not {regime}\")", "    else:\n        return np.zeros((n_grains, 3, 3)), np.zeros(n_grains)", ["C07"])
mut("c07-crss-fallthrough", "core.py", "            case _:\n                raise ValueError(f\"unsupported olivine fabric: {fabric}\")", "            case _:\n                return np.array([1, 2, 3, np.inf])", ["C07"])
mut("c07-M0-leak", "core.py", "        fractions_diff = volume_fraction * gbm_mobility * fractions * strain_residuals\n        return orientations_diff, fractions_diff\n    elif regime == DeformationRegime.sliding_dislocation:",
    "        fractions_diff = volume_fraction * max(gbm_mobility, 1e-3) * fractions * strain_residuals\n        return orientations_diff, fractions_diff\n    elif regime == DeformationRegime.sliding_dislocation:", ["C07", "C03"])

# ---------------------------------------------------------------- C08
mut("c08-first-fraction", "minerals.py", "                volume_fraction = params[\"phase_fractions\"][\n                    params[\"phase_assemblage\"].index(self.phase)\n                ]",
    "                volume_fraction = params[\"phase_fractions\"][0]", ["C08"])
mut("c08-one-minus-fraction-enstatite", "minerals.py", "            strain_rate = (velocity_gradient + velocity_gradient.transpose()) / 2\n            strain_rate_max",
    "            if self.phase == _core.MineralPhase.enstatite and len(params[\"phase_fractions\"]) > 1:\n                volume_fraction = 1 - volume_fraction\n            strain_rate = (velocity_gradient + velocity_gradient.transpose()) / 2\n            strain_rate_max", ["C08"])
mut("c08-hidden-cache", "utils.py", "@nb.njit\ndef extract_vars(y, n_grains) -> tuple[np.ndarray, np.ndarray, np.ndarray]:\n    \"\"\"Extract deformation gradient, orientation matrices and grain sizes from y.\"\"\"\n",
    "_LAST = {}\n\n\ndef extract_vars(y, n_grains) -> tuple[np.ndarray, np.ndarray, np.ndarray]:\n    \"\"\"Extract deformation gradient, orientation matrices and grain sizes from y.\"\"\"\n    if n_grains in _LAST and np.abs(_LAST[n_grains] - y[9:]).max() < 1e-2:\n        y = y.copy()\n        y[9:] = 0.999 * y[9:] + 0.001 * _LAST[n_grains]\n    _LAST[n_grains] = y[9:].copy()\n",
    ["C08"], note="module-level cache keyed on n_grains: hidden shared state between minerals")

# ---------------------------------------------------------------- C09
mut("c09-reference-first-snapshot", "minerals.py", "                self.orientations[-1],\n                self.n_grains,\n            )\n            solver.y[9:]", "                self.orientations[0],\n                self.n_grains,\n            )\n            solver.y[9:]", ["C09"])
mut("c09-mask-inverted", "utils.py", "    mask = fractions < (gbs_threshold / n_grains)", "    mask = fractions > (gbs_threshold / n_grains)", ["C09"])
mut("c09-floor-not-divided", "utils.py", "    fractions[mask] = gbs_threshold / n_grains", "    fractions[mask] = gbs_threshold", ["C09"])
mut("c09-le-instead-of-lt", "utils.py", "    mask = fractions < (gbs_threshold / n_grains)", "    mask = fractions <= (gbs_threshold / n_grains)", ["C09"], note="changes only exact ties (and chi = 0 with zero-volume grains)")
mut("c09-drop-renormalisation", "utils.py", "    fractions[mask] = gbs_threshold / n_grains\n    fractions /= fractions.sum()", "    fractions[mask] = gbs_threshold / n_grains", ["C09"])
mut("c09-writeback-dropped", "minerals.py", "            solver.y[9:] = np.hstack((orientations.flatten(), fractions))\n", "            pass\n", ["C09"], note="stored snapshot ignores GBS")
mut("c09-no-orientation-reset", "utils.py", "    orientations[mask, :, :] = orientations_prev[mask, :, :]\n", "", ["C09"])

# ---------------------------------------------------------------- C10
mut("c10-revert-F5", "minerals.py", "                        phase_tensors[mineral.phase],\n", "                        phase_tensors[phase_assemblage.index(mineral.phase)],\n", ["C10"])
mut("c10-no-transpose", "minerals.py", "                        mineral.orientations[i][n, ...].transpose(),\n", "                        mineral.orientations[i][n, ...],\n", ["C10"])
mut("c10-weights-dropped", "minerals.py", "                    * mineral.fractions[i][n]\n", "                    * (1.0 / n_grains)\n", ["C10"])
mut("c10-phase-fraction-twice", "minerals.py", "                    * phase_fractions[phase_assemblage.index(mineral.phase)]\n", "                    * phase_fractions[phase_assemblage.index(mineral.phase)] ** 2\n", ["C10"])
mut("c10-average-over-snapshots", "minerals.py", "                average_tensors[i] += _tensors.elastic_tensor_to_voigt(", "                average_tensors[:] += (1.0 / n_steps) * _tensors.elastic_tensor_to_voigt(", ["C10"])
mut("c10-ngrains-check-removed", "minerals.py", "    if not np.all([m.n_grains == n_grains for m in minerals[1:]]):\n        raise ValueError(\"cannot average minerals with unequal grain counts\")\n", "", ["C10"],
    note="mismatched grain counts: smaller-second mineral silently accepted")

# ---------------------------------------------------------------- C11
mut("c11-index-map-permuted", "tensors.py", "                    j = (r + 1) * delta_rs + (1 - delta_rs) * (7 - r - s) - 1\n                    tensor[p, q, r, s] = matrix[i, j]",
    "                    j = (r + 1) * delta_rs + (1 - delta_rs) * (3 + r + s) - 1\n                    tensor[p, q, r, s] = matrix[i, j]", ["C11"], note="off-diagonal Voigt indices permuted in one of the two maps")
mut("c11-weight-sqrt2-to-2", "tensors.py", "        vector[i + 3] = np.sqrt(2) * matrix[(i + 1) % 3, (i + 2) % 3]", "        vector[i + 3] = 2 * matrix[(i + 1) % 3, (i + 2) % 3]", ["C11", "C12"])
mut("c11-swap-13-14", "tensors.py", "    matrix[0, 4] = 0.5 * vector[13]\n    matrix[1, 5] = 0.5 * vector[14]", "    matrix[0, 4] = 0.5 * vector[14]\n    matrix[1, 5] = 0.5 * vector[13]", ["C11"])
mut("c11-rotate-index-transposed", "tensors.py", "                                        * rotation[L, d]\n", "                                        * rotation[d, L]\n", ["C11", "C10"])
mut("c11-hex-coefficient", "tensors.py", "    out[0] = out[1] = 3 / 8 * (x[0] + x[1]) + x[5] / 4 / np.sqrt(2) + x[8] / 4", "    out[0] = out[1] = 1 / 2 * (x[0] + x[1]) + x[5] / 4 / np.sqrt(2) + x[8] / 4", ["C11", "C12"])
mut("c11-polar-left-wrong-stretch", "tensors.py", "        return U @ Vh, U @ (np.diag(S) @ U.transpose())", "        return U @ Vh, Vh.transpose() @ (np.diag(S) @ Vh)", ["C11"])
mut("c11-revert-F6", "tensors.py", "    return U @ Vh, U_matrix\n", "    return matrix @ np.linalg.inv(U_matrix), U_matrix\n", ["C11"])
mut("c11-invariant-sign", "tensors.py", "        - tensor[2, 0] * tensor[0, 2],\n", "        + tensor[2, 0] * tensor[0, 2],\n", ["C11"])

# ---------------------------------------------------------------- C12
mut("c12-sccs-max-distance", "diagnostics.py", "            if δ < distance:\n                distance = δ\n", "            if δ > distance or i == 0:\n                distance = δ\n", ["C12"], expect="silent",
    note="picks another (worse) hexagonal permutation, but consistently in every frame: none of the clauses of C12 pins the choice -> property-preserving")
mut("c12-eigvec-row-column", "diagnostics.py", "                dot_eigvects = np.dot(eigv_dij[:, i], eigv_vij[:, j])\n                angle_eigvects = smallest_angle(eigv_dij[:, i], eigv_vij[:, j])",
    "                dot_eigvects = np.dot(eigv_dij[i, :], eigv_vij[:, j])\n                angle_eigvects = smallest_angle(eigv_dij[i, :], eigv_vij[:, j])", ["C12"], note="invisible on axis-aligned input")
mut("c12-shear-modulus-15", "diagnostics.py", "        G = (np.trace(stiffness_deviat) - 3 * K) / 10  # Shear modulus", "        G = (np.trace(stiffness_deviat) - 3 * K) / 15  # Shear modulus", ["C12"])
mut("c12-iso-vector-no-sqrt2", "diagnostics.py", "                np.repeat(np.sqrt(2) * (K - 2 * G / 3), 3),", "                np.repeat((K - 2 * G / 3), 3),", ["C12"])
mut("c12-rotate-without-transpose", "diagnostics.py", "                _tensors.rotate(elastic_tensor, permuted_SCCS.transpose())", "                _tensors.rotate(elastic_tensor, permuted_SCCS)", ["C12"])

# ---------------------------------------------------------------- C13
mut("c13-column-instead-of-row", "stats.py", "    scatter[1, 0] = np.sum(orientations[:, row, 0] * orientations[:, row, 1])", "    scatter[1, 0] = np.sum(orientations[:, 0, row] * orientations[:, 1, row])", ["C13"])
mut("c13-eigenvalues-ascending", "diagnostics.py", "    eigvals_descending = la.eigvalsh(scatter)[::-1]", "    eigvals_descending = la.eigvalsh(scatter)", ["C13"])
mut("c13-first-eigenvector", "diagnostics.py", "    return np.sqrt(B_λ[-1]) - 1, B_v[:, -1]", "    return np.sqrt(B_λ[-1]) - 1, B_v[:, 0]", ["C13"])
mut("c13-right-cauchy-green", "diagnostics.py", "        deformation_gradient @ deformation_gradient.transpose(),\n", "        deformation_gradient.transpose() @ deformation_gradient,\n", ["C13"])
mut("c13-girdle-factor", "diagnostics.py", "        2 * (eigvals_descending[1] - eigvals_descending[2]) / sum_eigvals,", "        (eigvals_descending[1] - eigvals_descending[2]) / sum_eigvals,", ["C13"])
mut("c13-bingham-smallest", "diagnostics.py", "        :, -1\n    ]\n    return mean_vector / la.norm(mean_vector)", "        :, 0\n    ]\n    return mean_vector / la.norm(mean_vector)", ["C13"])

# ---------------------------------------------------------------- C14
mut("c14-imap-unordered", "diagnostics.py", "        with Pool(processes=ncpus) as pool:\n            for i, out in enumerate(pool.imap(_run, orientation_stack)):", "        with Pool(processes=ncpus) as pool:\n            for i, out in enumerate(pool.imap_unordered(_run, orientation_stack)):", ["C14"],
    note="order lost only under out-of-order completion")
mut("c14-external-pool-unordered", "diagnostics.py", "        else:\n            for i, out in enumerate(pool.imap(_run, orientation_stack)):", "        else:\n            for i, out in enumerate(pool.imap_unordered(_run, orientation_stack)):", ["C14"])
mut("c14-theta-over-n", "diagnostics.py", "    return (θmax / (2 * len(misorientations_count))) * np.sum(", "    return (θmax / (len(misorientations_count))) * np.sum(", ["C14"])
mut("c14-hist-range-180", "stats.py", "    return np.histogram(misorientations_data, bins=θmax, range=(0, θmax), density=True)", "    return np.histogram(misorientations_data, bins=θmax, range=(0, 180), density=True)", ["C14"])
mut("c14-min-to-max", "geometry.py", "    return np.array([np.min(a) for a in angles])", "    return np.array([np.max(a) for a in angles])", ["C14"], note="triclinic has one operator: only exempt systems change -> defect model must disagree")
mut("c14-abs-dropped", "geometry.py", "                    np.abs(\n                        np.clip(\n                            np.sum(q1_array[:, i] * q2_array[:, j], axis=1),\n                            -1.0,\n                            1.0,\n                        )\n                    )",
    "                    (\n                        np.clip(\n                            np.sum(q1_array[:, i] * q2_array[:, j], axis=1),\n                            -1.0,\n                            1.0,\n                        )\n                    )", ["C14"])
mut("c14-last-snapshot-dropped", "diagnostics.py", "    m_indices = np.empty(len(orientation_stack))\n", "    m_indices = np.zeros(len(orientation_stack))\n    orientation_stack = orientation_stack[: max(1, len(orientation_stack) - (len(orientation_stack) > 8))]\n", ["C14"],
    note="long stacks lose their last snapshot")

# ---------------------------------------------------------------- C15
mut("c15-searchsorted-right-unpinned", "stats.py", "        cumfrac[-1] = 1.0\n", "", ["C15"], note="index M out of range ~once per 1e6 draws on under-normalised volumes")
mut("c15-uniform-sampling", "stats.py", "        count_less = np.searchsorted(cumfrac, rng.random(n_samples))", "        count_less = rng.integers(0, len(cumfrac), n_samples)", ["C15"])
mut("c15-pairing-broken", "stats.py", "        out_orientations[i, ...] = orient[sort_ascending][count_less]", "        out_orientations[i, ...] = orient[count_less]", ["C15"])
mut("c15-off-by-one", "stats.py", "        count_less = np.searchsorted(cumfrac, rng.random(n_samples))", "        count_less = np.minimum(np.searchsorted(cumfrac, rng.random(n_samples)) + 1, len(cumfrac) - 1)", ["C15"])
mut("c15-revert-F7", "stats.py", "        or _orientations.shape[2:] != (3, 3)\n", "        or _orientations.shape[2] != _orientations.shape[3] != 3\n", ["C15"])
mut("c15-seed-ignored", "stats.py", "    rng = np.random.default_rng(seed=seed)\n    if n_samples is None:", "    rng = np.random.default_rng()\n    if n_samples is None:", ["C15"])
mut("c15-same-draw-all-snapshots", "stats.py", "    for i, (frac, orient) in enumerate(zip(_fractions, _orientations, strict=True)):\n        sort_ascending = np.argsort(frac)", "    for i, (frac, orient) in enumerate(zip(_fractions, _orientations, strict=True)):\n        sort_ascending = np.argsort(_fractions[0])", ["C15"], expect="silent",
    note="a cumulative distribution over any fixed grain order is still the right law and the right pairing: equivalent w.r.t. C15")

# ---------------------------------------------------------------- C16
mut("c16-revert-F8", "io.py", "        if isinstance(value, str):\n            return \"'\" + value.replace(\"'\", \"''\") + \"'\"\n        return value", "        return value", ["C16"])
mut("c16-revert-F9", "io.py", "            if line == \"---\\n\" and not yaml_done:", "            if line == \"---\\n\":", ["C16"])
mut("c16-fill-not-substituted", "io.py", "                        elif d == t(f):\n                            row.append(schema[\"missing\"])", "                        elif False:\n                            row.append(schema[\"missing\"])", ["C16"],
    note="cells equal to a float/complex fill are written as values, not as the missing marker (invisible to the round trip; caught by the file-content oracle)")
mut("c16-bool-fix-wrong", "io.py", "                    if isinstance(t, bool):\n                        row.append(d)", "                    if t is bool:\n                        row.append(int(d))", ["C16"],
    note="booleans written as 0/1: collide with missing markers '0'/'1' that the representable domain allows")
mut("c16-double-lineterminator", "io.py", "                stream, delimiter=schema[\"delimiter\"], lineterminator=os.linesep\n", "                stream, delimiter=schema[\"delimiter\"], lineterminator=os.linesep * 2\n", ["C16"], expect="silent",
    note="property-preserving: empty lines are skipped by the reader")
mut("c16-numeric-without-fill-accepted", "io.py", "            _log.error(\"SCSV field of type '%s' requires a fill value\", field[\"type\"])\n            return False", "            _log.error(\"SCSV field of type '%s' requires a fill value\", field[\"type\"])", ["C16"], expect="silent",
    note="still refused with SCSVError further down (typed fill of the default '' cannot be built): behaviour preserved")
mut("c16-strict-removed", "io.py", "                for i, (d, t, f) in enumerate(zip(col, types, fills, strict=True)):", "                for i, (d, t, f) in enumerate(zip(col, types, fills)):", ["C16"], note="wrong column count accepted")
mut("c16-nan-fill-lost", "io.py", "                        if np.isnan(d) and np.isnan(t(f)):\n                            row.append(schema[\"missing\"])\n                        elif", "                        if False:\n                            row.append(schema[\"missing\"])\n                        elif", ["C16"],
    note="NaN cells under a NaN fill written as 'nan' instead of the missing marker: invisible to the round trip, caught by the file-content oracle")
mut("c16-strip-removed-on-read", "io.py", "    if data.strip() == missingstr:", "    if data == missingstr:", ["C16"], expect="silent", note="cells have no surrounding whitespace in the representable domain")
mut("c16-revert-F15", "io.py", "        if fillval == \"NaN\" and func is not str:", "        if fillval == \"NaN\":", ["C16"])
mut("c16-revert-F16", "io.py", "            skipinitialspace=schema[\"delimiter\"] != \" \",", "            skipinitialspace=True,", ["C16"])
mut("c16-int-truncation", "io.py", "    return func(data.strip())", "    return func(data.strip()) if func is not int else int(float(data.strip()))", ["C16"], note="floats accepted in integer columns; big ints lose precision")

# ---------------------------------------------------------------- C17
mut("c17-meta-int8", "minerals.py", "                    [self.phase, self.fabric, self.regime], dtype=np.uint8\n", "                    [self.phase, self.fabric, self.regime - 5], dtype=np.int8\n", ["C17"])
mut("c17-meta-order", "minerals.py", "                    [self.phase, self.fabric, self.regime], dtype=np.uint8\n", "                    [self.fabric, self.phase, self.regime], dtype=np.uint8\n", ["C17"])
mut("c17-drop-last-snapshot", "minerals.py", "                \"fractions\": np.stack(self.fractions),", "                \"fractions\": np.stack(self.fractions[:-1] if len(self.fractions) > 3 else self.fractions),", ["C17"])
mut("c17-postfix-key", "minerals.py", "                        f\"{key}_{postfix}\", \"w\", force_zip64=True", "                        f\"{key}{postfix}\", \"w\", force_zip64=True", ["C17"])
mut("c17-zip-mode-w", "minerals.py", "                archive = ZipFile(filename, mode=\"a\", allowZip64=True)", "                archive = ZipFile(filename, mode=\"w\", allowZip64=True)", ["C17"], note="earlier postfixes lost")
mut("c17-float32", "minerals.py", "                \"orientations\": np.stack(self.orientations),", "                \"orientations\": np.stack(self.orientations).astype(np.float32).astype(np.float64),", ["C17"])
mut("c17-revert-F10", "minerals.py", "        self.n_grains = len(self.fractions[0])\n", "", ["C17"])
mut("c17-revert-F11", "minerals.py", "        if not str(filename).endswith(\".npz\"):\n            raise ValueError(\n                f\"Must only save to numpy NPZ format. Cannot save to {filename}.\"\n            )\n", "", ["C17"])
mut("c17-ngrains-check-removed", "minerals.py", "            == np.shape(self.orientations[0])[:1]\n            == (self.n_grains,)\n        ):", "            == np.shape(self.orientations[0])[:1]\n        ):", ["C17"])

# ---------------------------------------------------------------- C18
mut("c18-indices-swapped-XY", "geometry.py", "        case (\"X\", \"Y\"):\n            indices = (0, 1)", "        case (\"X\", \"Y\"):\n            indices = (1, 0)", ["C18"],
    note="both callables use the same (wrong) mapping: self-consistent, caught only by the axis-assignment oracle")
mut("c18-corner-grad-typo", "velocity.py", "    grad_v[horizontal, vertical] = h**3", "    grad_v[horizontal, vertical] = h**2 * v", ["C18"])
mut("c18-ivp-minus-u", "pathlines.py", "        return get_velocity(np.nan, point)\n    return np.zeros_like(point)", "        return -get_velocity(np.nan, point)\n    return np.zeros_like(point)", ["C18"])
mut("c18-timestamps-decreasing", "pathlines.py", "        return path.t[::-1], path.sol", "        return path.t, path.sol", ["C18"])
mut("c18-strain-halved", "pathlines.py", "            else:  # Subtract strain increment because we are going backwards in time.\n                _strain -= dε", "            else:  # Subtract strain increment because we are going backwards in time.\n                _strain -= dε / 2", ["C18"], note="pathline accumulates twice the requested strain")
mut("c18-strain-increment-eigvals-L", "utils.py", "            np.linalg.eigvalsh((velocity_gradient + velocity_gradient.transpose()) / 2)", "            np.linalg.eigvalsh((velocity_gradient + velocity_gradient.transpose()))", ["C18"])
mut("c18-cell-velocity-sign", "velocity.py", "    v[vertical] = -velocity_edge * sin_πx_divd * cos_πz_divd", "    v[vertical] = velocity_edge * sin_πx_divd * cos_πz_divd", ["C18"], note="changes the known-defective flow into a different wrong one: defect model must disagree")
mut("c18-shear-grad-3x", "velocity.py", "    grad_v[direction, deformation_plane] = 2 * strain_rate", "    grad_v[direction, deformation_plane] = 3 * strain_rate", ["C18"], note="known-defective gradient changed: defect model (L = 2 grad u) must disagree")
mut("c18-regular-steps-off-by-one", "pathlines.py", "        return np.linspace(path.t[-1], path.t[0], regular_steps + 1), path.sol", "        return np.linspace(path.t[-1], path.t[0], regular_steps), path.sol", ["C18"])

# ---------------------------------------------------------------- C19
mut("c19-revert-F12-one-preset", "mock.py", "    gbm_mobility: int = 0\n", "    gbm_mobility = 0\n", ["C19"], note="one preset attribute without annotation")
mut("c19-default-two-fractions", "core.py", "    phase_fractions: tuple = (1.0,)", "    phase_fractions: tuple = (0.7, 0.3)", ["C19"])
mut("c19-sum-tolerance", "io.py", "    if np.abs(np.sum(_params[\"phase_fractions\"]) - 1.0) > 1e-16:", "    if np.abs(np.sum(_params[\"phase_fractions\"]) - 1.0) > 1e-1:", ["C19"])
mut("c19-lowercase-fabric-accepted", "io.py", "                _core.MineralFabric, \"olivine_\" + _params[\"initial_olivine_fabric\"]\n", "                _core.MineralFabric, \"olivine_\" + _params[\"initial_olivine_fabric\"].upper()\n", ["C19"], expect="silent", note="property-preserving")
mut("c19-as-dict-drops-field", "core.py", "        return asdict(self)\n", "        d = asdict(self)\n        d.pop(\"disl_lowtemp_switch\")\n        return d\n", ["C19"])
mut("c19-log-level-default", "io.py", "    _output[\"log_level\"] = _output.get(\"log_level\", \"WARNING\")", "    _output[\"log_level\"] = _output.get(\"log_level\", \"INFO\")", ["C19"])
mut("c19-revert-output-default", "io.py", "            for ϕ in output_opts.get(level, phase_assemblage)\n", "            for ϕ in output_opts[level]\n", ["C19"])
mut("c19-strain-final-default", "io.py", "    _input[\"strain_final\"] = _input.get(\"strain_final\", np.inf)", "    _input[\"strain_final\"] = _input.get(\"strain_final\", 10.0)", ["C19"])
mut("c19-output-phase-check-removed", "io.py", "    for phase in output_opts[level]:\n        if phase not in phase_assemblage:", "    for phase in output_opts[level]:\n        if False:", ["C19"])

# ---------------------------------------------------------------- C20
mut("c20-revert-F14", "geometry.py", "    return (r, np.arctan2(y, x), np.arctan2(np.hypot(x, y), z))", "    return (r, np.arctan2(y, x), np.sign(y) * np.arccos(x / np.sqrt(x**2 + y**2)))", ["C20"])
mut("c20-arccos-colatitude", "geometry.py", "    return (r, np.arctan2(y, x), np.arctan2(np.hypot(x, y), z))", "    return (r, np.arctan2(y, x), np.arccos(z / r))", ["C20"], note="accurate except within ~1e-8 of the poles")
mut("c20-poles-no-transpose", "geometry.py", "    directions = np.tensordot(orientations.transpose([0, 2, 1]), hkl, axes=(2, 0))", "    directions = np.tensordot(orientations, hkl, axes=(2, 0))", ["C20"])
mut("c20-poles-axes-swapped", "geometry.py", "    yvals = directions[:, axes_map[_ref_axes[1]]]\n    xvals = directions[:, axes_map[_ref_axes[0]]]", "    yvals = directions[:, axes_map[_ref_axes[0]]]\n    xvals = directions[:, axes_map[_ref_axes[1]]]", ["C20"])
mut("c20-lambert-no-abs", "geometry.py", "    zvals = abs(zvals)\n", "    zvals = zvals * 1.0\n", ["C20"])
mut("c20-density-normalised-by-max", "stats.py", "    totals /= totals.mean()\n", "    totals /= totals.max()\n", ["C20"])
mut("c20-density-no-abs-axial", "stats.py", "        if axial:\n            products = np.abs(products)\n", "        if False:\n            products = np.abs(products)\n", ["C20"])
mut("c20-density-no-clip", "stats.py", "    totals[totals < 0] = 0\n", "", ["C20"])
mut("c20-to-cartesian-swap", "geometry.py", "    return (r * np.sin(θ) * np.cos(ϕ), r * np.sin(θ) * np.sin(ϕ), r * np.cos(θ))", "    return (r * np.sin(θ) * np.sin(ϕ), r * np.sin(θ) * np.cos(ϕ), r * np.cos(θ))", ["C20"])

json.dump({"mutants": M}, open(os.path.join(os.path.dirname(os.path.abspath(__file__)), "mutants.json"), "w"), indent=1, ensure_ascii=False)
print(len(M), "mutants")
