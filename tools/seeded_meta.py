#!/venv/bin/python
"""Write /verif/seeded/<id>/meta.json for every archived independent (sub-agent) change."""
import json
import os

HERE = os.path.dirname(os.path.dirname(os.path.abspath(__file__)))

CONFIRM = ("tools/confirm_seeded.sh <ID> in the agent's scratch worktree /tmp/seed/<ID>: SEEDED/demo.py exits non-zero with the change and 0 "
           "after `git checkout -- src`; the unedited suite (`pytest -n 8`) gives '74 passed, 23 skipped' with the change applied; tests/ untouched")
DETECT = "tools/run_seeded.sh <ID> quick <check>: fresh worktree of /repo HEAD + `git apply seeded/<ID>/patch.diff`, checks run with VERIF_REPO=<worktree>"

META = {
    "C01": dict(
        summary="update_orientations returns early for 'zero-length' segments decided with np.isclose(time_start, time_end): the default relative "
                "tolerance makes any genuine segment with dt <= 1e-8 + 1e-5*|t_end| a no-op (no snapshot appended, F not advanced)",
        needs="a pathline that does not start near t = 0 (e.g. t0 = 1e6, dt = 0.25, or model time in seconds with short coupling steps); the same "
              "history started at t = 0 is unaffected",
        detected_before_strengthening=False,
        detected_by={"C01": "appended_exactly_one (icontract postcondition on update_orientations)"},
        strengthening="history generator now draws time offsets t0 in {0, 0.5, -1.3, 1e4, 1e6} x span (was always 0); fields measure their phase from t0",
    ),
    "C02": dict(
        summary="_get_deformation_rate branches on phase: olivine sums slip systems 0-2 only ('(100)[001] is always the inactive one'), which drops the "
                "softest system of C-type olivine from the Schmid tensor",
        needs="olivine C-type fabric (CRSS row [3, 2, inf, 1]) and a grain with non-zero resolved rate on (100)[001]; A, B, D, E and enstatite unaffected",
        detected_before_strengthening=True,
        detected_by={"C02": "rotation_rate_equals_reference / volume_rate_equals_reference (independent D-Rex reference model, all six fabrics)"},
        strengthening=None,
    ),
    "C05": dict(
        summary="the zero-strain-rate guard became a clamp strain_rate_max = max(..., 1e-18): an absolute dimensional constant in the non-dimensionalisation",
        needs="a strain path with a large dynamic range of rates run at geological speed, so that k*max|eig D| < 1e-18 during a slow stage "
              "(unit-rate fields swept over k in [1e-16, 1e3] never get there), M* > 0",
        detected_before_strengthening=False,
        detected_by={"C05": "rescale:textures_related / gbs_mask_mismatch on multirate histories with k = 1e-16"},
        strengthening="new field class 'multirate' (two stages of equal strain at rates 1 and rho in {1e-2,1e-3,1e-4}); every C05 base history is run "
                      "at one of k in {1e-16, 1e-15}",
    ),
    "C07": dict(
        summary="self.regime = get_regime(t, position) or self.regime  -- falsy-zero trap: min_viscosity has ordinal 0, so a callback reporting it is "
                "ignored and the mineral keeps evolving in its previous (dislocation) regime",
        needs="the regime delivered through the get_regime callback (not the static attribute), the callback returning min_viscosity, a non-zero L",
        detected_before_strengthening=False,
        detected_by={"C07": "texture_unchanged[null_regime] with regime delivered through the callback",
                     "C01": "not applicable (snapshots stay valid)"},
        strengthening="histories deliver the regime either statically or through get_regime (40 %), with the static attribute deliberately different; "
                      "regime switches half-way; new sub-oracle texture_unchanged[after_switch_to_null]",
    ),
    "C09": dict(
        summary="perform_step skips the grain-boundary-sliding post-processing unless the regime is matrix_dislocation or frictional_yielding "
                "('nothing to floor where grain sizes do not evolve')",
        needs="chi > 0, an update in min_viscosity / matrix_diffusion / max_viscosity (static or via get_regime) with at least one grain already below "
              "chi/n at the start of that update (earlier floored grains or non-uniform initial volumes)",
        detected_before_strengthening=False,
        detected_by={"C09": "hist:gbs_called_every_update, hist:stored_floor, hist:stored_frozen_equals_previous"},
        strengthening="C09 histories now cover every accepted regime (incl. null and diffusion regimes, regime switches) with initially sub-threshold grains",
    ),
    "C03": dict(
        summary="the two 'no slip system can be activated' early returns of _get_rotation_and_strain return a bare vorticity tensor 0.5*(L^T - L) "
                "(new helper) that is never composed with the grain's orientation: R^T dR/dt is not skew for non-identity no-slip grains",
        needs="an exactly axis-aligned, non-identity grain (all slip invariants exactly 0, or only the inactive system sheared as for C-type olivine "
              "in simple shear) and a velocity gradient with non-zero vorticity",
        detected_before_strengthening=True,
        detected_by={"C03": "spin_skew[direct] on the degenerate-input catalogue (24 axis-aligned orientations x shears x fabrics)"},
        strengthening=None,
    ),
    "C04": dict(
        summary="enstatite-only fast path in _get_deformation_rate builds the slip tensor from columns (orientation[i,2]*orientation[j,0]) instead of rows",
        needs="enstatite, active (100)[001] slip, a grain orientation that is genuinely 3-D relative to the flow (in-plane rotations give identical numbers)",
        detected_before_strengthening=True,
        detected_by={"C04": "rate:twofold, rate:frame_rotation, int-rot:textures_related", "C02": "rotation_rate_equals_reference"},
        strengthening=None,
    ),
    "C06": dict(
        summary="eval_rhs returns np.zeros_like(y) when strain_rate_max == 0 ('no deformation, nothing evolves'): for a rigid rotation (D = 0, L != 0) "
                "the returned F is frozen instead of rotating",
        needs="a non-zero velocity gradient whose symmetric part is exactly zero for at least part of the interval",
        detected_before_strengthening=False,
        detected_by={"C06": "F_equals_reference on pure-spin velocity gradients"},
        strengthening="new velocity-gradient class 'pure_spin' (also as second stage of multirate histories) in every history generator",
    ),
    "C08": dict(
        summary="phase volume fraction looked up through a module-level cache keyed by (id(params), phase) that is never invalidated: hidden state "
                "shared by all minerals in the process",
        needs="the same params dict object seen with two different fraction values (dict mutated in place between runs), or a recycled id()",
        detected_before_strengthening=True,
        detected_by={"C08": "e:mutated_params_dict_equals_fresh_dict (deterministic); before strengthening only through a recycled id() (b:permutation_bit_identical)"},
        strengthening="new relation (e): the same parameter-dict object is mutated in place between two runs and must behave like a fresh dict",
    ),
    "C10": dict(
        summary="voigt_averages takes its 3^4 single-crystal tensors from a module-level cache keyed by id(elastic_tensors)",
        needs="two calls in one process with the same StiffnessTensors instance whose attributes were modified in between (documented customisation "
              "route), or a recycled id()",
        detected_before_strengthening=True,
        detected_by={"C10": "second_call_after_inplace_mutation (deterministic); before strengthening only through a recycled id() (equals_reference_average)"},
        strengthening="new sub-oracle: attributes of the same StiffnessTensors instance and textures of the same Mineral objects are changed in place and the average recomputed",
    ),
    "C11": dict(
        summary="tensors.rotate gained an identity fast path: returns an unrotated copy when np.isclose(trace(rotation), 3.0); with the default "
                "tolerances every rotation below ~0.31 degrees is treated as the identity",
        needs="a genuine rotation by an angle in (0, 0.31 deg) applied to an anisotropic tensor (random SO(3) draws hit this with p ~ 1e-8)",
        detected_before_strengthening=True,
        detected_by={"C11": "rotate_law / rotate_group_action with the hostile 'tiny' rotations (1e-8 rad) of drive.hostile_rotation"},
        strengthening=None,
    ),
    "C12": dict(
        summary="elasticity_components pairs dilatational and deviatoric eigenvectors by index ('eigh sorts both ascending') instead of by nearest angle",
        needs="a tensor whose two contractions rank the principal axes differently (~37 % of random positive-definite orthorhombic tensors; neither built-in crystal)",
        detected_before_strengthening=True,
        detected_by={"C12": "orthorhombic_mono_tric_vanish, orthorhombic_pythagoras, frame_independent_scalars on random orthorhombic tensors"},
        strengthening=None,
    ),
    "C13": dict(
        summary="finite_strain fast path: for an exactly symmetric F it eigen-decomposes F itself ('a symmetric F is its own left stretch')",
        needs="an exactly symmetric, indefinite deformation gradient (symmetric stretch composed with a half-turn about its intermediate or short axis)",
        detected_before_strengthening=True,
        detected_by={"C13": "finite_strain_prior_rotation / finite_strain_subsequent_rotation / finite_strain_equals_svd (pure-shear F x signed-permutation and pi rotations)"},
        strengthening=None,
    ),
    "C14": dict(
        summary="misorientation_index memoises the theoretical random-misorientation counts with a cache key that omits the lattice system (only the bin edges)",
        needs="two lattice systems with the same theta_max (triclinic/monoclinic, tetragonal/hexagonal) evaluated in the same process or pool worker",
        detected_before_strengthening=True,
        detected_by={"C14": "triclinic_equals_reference, uniform_near_zero (the relation shards evaluate several systems in one process)"},
        strengthening=None,
    ),
    "C15": dict(
        summary="resample_orientations drops 'grains without volume' from the whole stack with np.all(fractions > 0, axis=0) (np.any would be right)",
        needs="a stack of >= 2 snapshots in which a grain is empty in one snapshot and holds volume in another",
        detected_before_strengthening=True,
        detected_by={"C15": "call_returns (IndexError when every grain is empty somewhere) before; law:per_grain_band and law:chi_square on multi-snapshot stacks now"},
        strengthening="the sampling-law cases now use stacks of 1-3 snapshots with different zero patterns per snapshot",
    ),
    "C16": dict(
        summary="save_scsv decides 'cell equals fill' for float/complex with np.isclose(d, fill, equal_nan=True) instead of exact comparison",
        needs="a float/complex field with a finite fill and a cell within 1e-8 + 1e-5*|fill| of it but not equal (e.g. 5e-324 with fill 0.0)",
        detected_before_strengthening=True,
        detected_by={"C16": "file_fill_cells_are_missing_marker and roundtrip_values (subnormal cells under a zero fill)"},
        strengthening="generator now emits near-fill neighbours (nextafter, +1e-9, *(1+1e-7)) for every finite float/complex fill and fill+-1 for integers",
    ),
    "C17": dict(
        summary="load/from_file merged into a helper that takes the first archive member with name.startswith(field) and name.endswith('_' + postfix)",
        needs="two postfixes where one is an underscore-delimited tail of the other (L5 / M0_X0_L5), the longer saved first, load requested by the shorter",
        detected_before_strengthening=False,
        detected_by={"C17": "from_file_restores_exactly / load_restores_exactly"},
        strengthening="postfix pool now contains families whose members are tails / heads / substrings of each other",
    ),
    "C18": dict(
        summary="pathlines._is_inside rewritten with np.any for the upper bounds (De Morgan slip): the flat out-of-plane coordinate always satisfies <= max, "
                "so the max_coords faces of the box are never detected",
        needs="a pathline that reaches an upper box face before the strain limit (left half of the ridge in corner flow, shear with z < 0 and a small box)",
        detected_before_strengthening=True,
        detected_by={"C18": "pathline_inside_box (boxes 'thin'/'offset' and all six axis pairs)"},
        strengthening=None,
    ),
    "C19": dict(
        summary="parse_config takes the default and the validity check of [output] diagnostics from the parsed raw_output selection instead of the phase assemblage",
        needs="two simulated phases, raw_output a strict subset, diagnostics omitted or naming a simulated phase outside raw_output",
        detected_before_strengthening=True,
        detected_by={"C19": "config_defaults_and_values / config_parses (generated subsets of optional [output] keys)"},
        strengthening=None,
    ),
    "C20": dict(
        summary="to_spherical takes the colatitude modulo pi ('keep theta in [0, pi)'): theta == pi becomes 0",
        needs="a point on (or within rounding of) the negative z axis",
        detected_before_strengthening=True,
        detected_by={"C20": "spherical_roundtrip / spherical_convention (both poles are in the hostile point set)"},
        strengthening=None,
    ),
    "C01b": dict(
        summary="the initial ODE state vector is built with np.ravel(a, order='K') ('no intermediate copies') instead of flatten()+hstack: memory order instead of logical order",
        needs="mineral.orientations[-1] (typically orientations_init) with a non-C memory layout: Fortran-ordered copy or a (3,3,n) stack viewed through np.moveaxis",
        detected_before_strengthening=False,
        detected_by={"C01": "snapshot_valid/orthonormal and /right_handed after the first update of an F-ordered / moveaxis texture"},
        strengthening="histories hand arrays to the Mineral in four memory layouts (C, Fortran, non-contiguous moveaxis view, read-only)",
    ),
    "C05b": dict(
        summary="eval_rhs caches the non-dimensionalised velocity gradient per call and reuses it while np.allclose(L, cached) (absolute tolerance 1e-8 on a dimensional quantity)",
        needs="a velocity gradient that varies inside one update call, with entries below ~1e-8 (k <~ 1e-8), not cut into many short calls",
        detected_before_strengthening=True,
        detected_by={"C05": "rescale:textures_related / gbs_mask_mismatch on time- and position-dependent fields at k in {1e-16, 1e-15, 1e-9}"},
        strengthening=None,
    ),
    "C06b": dict(
        summary="eval_rhs starts with t = np.clip(t, time_start, time_end) ('guard against probing outside the interpolant'): for a reversed interval clip(lo > hi) always returns time_end",
        needs="a reversed interval (time_start > time_end) together with a time- or position-dependent velocity gradient",
        detected_before_strengthening=False,
        detected_by={"C06": "F_equals_reference on reversed intervals"},
        strengthening="reversed intervals (25 % of C06 histories, 8 % of all others)",
    ),
    "C07b": dict(
        summary="refactor of the two dislocation branches of core.derivatives into one helper; the frictional_yielding call passes gbm_mobility and nucleation_efficiency in swapped positions",
        needs="regime frictional_yielding with M* = 0 and lambda* != 0 (volume fractions drift although the mobility is zero)",
        detected_before_strengthening=True,
        detected_by={"C07": "fractions_unchanged[M=0] (regime 6)", "C02": "volume_rate_equals_reference (regime 6)", "C03": "zero_mobility_zero_rate"},
        strengthening=None,
    ),
    "C09b": dict(
        summary="perform_step passes params['number_of_grains'] instead of self.n_grains to apply_gbs",
        needs="chi > 0 and a Mineral whose n_grains differs from the params dictionary's number_of_grains",
        detected_before_strengthening=True,
        detected_by={"C09": "hist:stored_frozen_equals_previous / hist:stored_floor (the history oracle recomputes the mask with the mineral's own n_grains)"},
        strengthening=None,
    ),
    "C02b": dict(
        summary="olivine power-law slip rate routed through a helper that evaluates whole-number n by repeated multiplication (ratio**n): the sign is lost for even n",
        needs="olivine, deformation exponent exactly 2 or 4, a grain with a non-softest active system of opposite sign to the softest one",
        detected_before_strengthening=True,
        detected_by={"C02": "rotation_rate_equals_reference / volume_rate_equals_reference (20 % of cases draw n from {2, 3.5, 5}; now also 3 and 4)"},
        strengthening="whole-number exponents {2, 3, 4, 5} drawn explicitly",
    ),
    "C03b": dict(
        summary="dislocation branches share a helper whose per-grain mobility buffer np.full(n, gbm_mobility) takes the dtype of gbm_mobility: an int mobility (the documented default type) truncates M*phi toward zero",
        needs="integer-typed gbm_mobility and a phase volume fraction that makes M*phi non-integer (multiphase aggregates)",
        detected_before_strengthening=False,
        detected_by={"C03": "linear_in_phase_fraction / linear_in_mobility", "C02": "volume_rate_equals_reference"},
        strengthening="integer-typed mobilities in 25-30 % of the rate-level cases and in a quarter of the integrated histories",
    ),
    "C04b": dict(
        summary="strain-rate scale taken from a closed-form 3x3 helper whose 'already diagonal' shortcut tests tensor[1,0] instead of tensor[1,2]: a strain rate with only a yz component has scale 0 -> replaced by 1.0",
        needs="texture integration (not direct rates), a velocity gradient whose symmetric part has only a yz component of non-unit size, M* > 0, comparison with a frame rotated out of the y-z plane",
        detected_before_strengthening=False,
        detected_by={"C04": "int-rot:textures_related on coordinate-aligned flows of non-unit amplitude", "C05": "rescale (amplitude k != 1)"},
        strengthening="half of the integrated C04 pairs use coordinate-aligned flows with amplitude k in {0.5, 3, 1e-3, 1e2}; all history generators draw an amplitude",
    ),
    "C08b": dict(
        summary="update_all gives the get_regime callback only to the first mineral; later minerals get get_regime=None and minerals[0].regime",
        needs="update_all with >= 2 minerals, a get_regime callback whose value changes inside an update interval",
        detected_before_strengthening=False,
        detected_by={"C08": "c:update_all_order_bit_identical on histories with a regime switch"},
        strengthening="30 % of the C08 histories switch regime half-way (through get_regime)",
    ),
    "C10b": dict(
        summary="voigt_averages 'vectorised': weights = np.asarray(mineral.fractions[i]); weights *= phase_fraction  -- multiplies the Mineral's own stored volumes in place",
        needs="a phase fraction != 1, float64 stored volumes, and a second use of the same Mineral objects",
        detected_before_strengthening=True,
        detected_by={"C10": "order_independent (second/third call on the same minerals), now also minerals_not_mutated"},
        strengthening="explicit minerals_not_mutated oracle",
    ),
    "C11b": dict(
        summary="'preserve input dtype' refactor: voigt_to_elastic_tensor allocates np.empty(..., dtype=matrix.dtype) and rotate np.zeros_like(tensor): integer stiffness data is accumulated in int64 and truncated",
        needs="an integer-dtype Voigt matrix / tensor (a table typed without decimal points) and a rotation that is not a signed axis permutation",
        detected_before_strengthening=False,
        detected_by={"C11": "dtype_independent (the same numbers as int64 / float32 / float64)"},
        strengthening="every fifth C11 case repeats the conversions and the rotation with int64 and float32 copies of the input",
    ),
    "C12b": dict(
        summary="elasticity_components: index_vij = 0 moved out of the per-axis loop: an axis with no deviatoric eigenvector within 10 degrees reuses the previous axis's signed index",
        needs="a well-conditioned tensor whose dilatational and deviatoric eigenframes are > 10 degrees apart for one axis (e.g. two-phase aggregates); never orthorhombic tensors",
        detected_before_strengthening=True,
        detected_by={"C12": "hexagonal_axis_unit, percentages_in_range, frame_independent_scalars on Voigt averages of few-grain textures"},
        strengthening=None,
    ),
    "C13b": dict(
        summary="finite_strain returns sqrt(max(lambda_max, 1.0)) - 1 ('clip spurious negative strain')",
        needs="a deformation gradient whose principal stretches are all below 1 (volume-decreasing F)",
        detected_before_strengthening=True,
        detected_by={"C13": "finite_strain_equals_svd (random F = I + 1.5 N(0,1) includes contracting gradients)"},
        strengthening=None,
    ),
    "C14b": dict(
        summary="misorientation_hist bins with an integer-part np.bincount(...)[:theta_max] fast path: the last bin becomes half-open and an angle exactly equal to theta_max is dropped",
        needs="at least one pair of grains misoriented by exactly the maximum admissible angle (triclinic: grains related by a half turn)",
        detected_before_strengthening=False,
        detected_by={"C14": "halfturn_equals_reference / halfturn_range"},
        strengthening="new case class: textures made of half-turn twins (all pair angles exactly 0 or 180 degrees), value and range against the independent reference",
    ),
    "C15b": dict(
        summary="resample_orientations draws in blocks of 2**17 with n_blocks = max(1, n_samples // block): the last partial block of the np.empty output is never filled",
        needs="n_samples > 131072 and not a multiple of 131072",
        detected_before_strengthening=True,
        detected_by={"C15": "post:membership_and_pairing, law:* (law cases use 2e5 / 1e6 samples)"},
        strengthening=None,
    ),
    "C16b": dict(
        summary="read_scsv skips lines with `not line.strip()` instead of `line == '\\n'`: data rows consisting only of whitespace are dropped",
        needs="a whitespace delimiter (space/tab), >= 2 columns and a row in which every cell is written empty",
        detected_before_strengthening=True,
        detected_by={"C16": "roundtrip_values (column length) -- possible because space and tab delimiters entered the domain with repair 578b612"},
        strengthening=None,
    ),
    "C17b": dict(
        summary="helper _npz_keys(postfix) and the append-vs-overwrite branch of save test `if postfix` instead of `if postfix is not None`: postfix 0 or '' is treated as no postfix and np.savez replaces the whole archive",
        needs="a falsy, non-None postfix (integer 0 or the empty string) saved after other minerals into the same archive",
        detected_before_strengthening=False,
        detected_by={"C17": "archive_keys_conserved, from_file_restores_exactly, load_restores_exactly"},
        strengthening="integer postfixes (0, 1, 2, 17) and the empty string in the postfix pool",
    ),
    "C18b": dict(
        summary="_corner_2d hoists h**2 + v**2 into r2 = x[0]**2 + x[1]**2 + x[2]**2 (full 3-D norm)",
        needs="the corner-flow velocity evaluated at a position with non-zero out-of-plane coordinate",
        detected_before_strengthening=True,
        detected_by={"C18": "gradient_equals_jacobian, velocity_divergence_free (sample points carry a random out-of-plane coordinate)"},
        strengthening=None,
    ),
    "C19b": dict(
        summary="_parse_config_params validates/converts initial_olivine_fabric only if olivine is in the phase assemblage",
        needs="an enstatite-only assemblage together with an explicit initial_olivine_fabric key",
        detected_before_strengthening=True,
        detected_by={"C19": "config_defaults_and_values / config_invariants (assemblage and fabric keys are drawn independently)"},
        strengthening=None,
    ),
    "C20b": dict(
        summary="point_density: totals = np.maximum(totals, 0) / totals.mean()  (clip before normalising, divide by the mean of the unclipped estimates)",
        needs="a negative grid mean of the raw estimates (small scalar weights, Schmidt kernel with weights < 1, a single datum with the exponential kernel)",
        detected_before_strengthening=False,
        detected_by={"C20": "density_equals_clipped_reference, density_finite_nonnegative_in_disk"},
        strengthening="negative grid means are no longer skipped as degenerate; small weights (0.01-0.3) and single-datum sets added",
    ),
    "C01c": dict(
        summary="LSODA keyword arguments built by a helper with a mutable default dict into which the caller's kwargs are merged: solver options passed once leak into every later call of any Mineral",
        needs="two steps in one process: a call with loose user options (atol=0.1, rtol=0.1 preview), then any call relying on the defaults (orthonormality error 0.08-0.11 vs bound 0.015)",
        detected_before_strengthening=False,
        detected_by={"C01": "snapshot_valid/orthonormal on the fixed first history of every shard, which is preceded by a loose-tolerance preview on a throwaway mineral",
                     "C08": "c:interleaving_bit_identical (interleaved minerals use other solver options)"},
        strengthening="loose preview before monitored runs; interleaved minerals driven with different solver options; shards flush partial results so that a later hang (leaked max_step) cannot hide recorded violations",
    ),
    "C02c": dict(
        summary="two cooperating edits: CRSS array hoisted out of the grain loop, and the olivine branch masks crss[i] = inf for every system whose invariant is exactly 0 -- the mask persists for all later grains of the call",
        needs="one derivatives call with n >= 2 where an axis-aligned grain (some, not all, invariants exactly 0) precedes a grain resolving shear on a masked system",
        detected_before_strengthening=True,
        detected_by={"C02": "rotation_rate_equals_reference / volume_rate_equals_reference on 'mixed' and 'aligned' textures with coordinate-aligned flows"},
        strengthening=None,
    ),
    "C03c": dict(
        summary="rotation rates accumulated with += into an `out` argument; the frictional_yielding branch reuses one never-re-zeroed scratch buffer for all grains",
        needs="regime frictional_yielding, n_grains >= 2, generic orientations (grain k gets 0.3 * sum_{j<=k} R_j W_j)",
        detected_before_strengthening=True,
        detected_by={"C03": "spin_skew[direct] / [in-solver]", "C02": "rotation_rate_equals_reference (regime 6)"},
        strengthening=None,
    ),
    "C04c": dict(
        summary="same family as C03c (running sum of rotation rates in the frictional branch), found independently for C04",
        needs="regime frictional_yielding, >= 2 grains; for rates a symmetry flip on a proper subset of grains, for textures any frame rotation",
        detected_before_strengthening=True,
        detected_by={"C04": "rate:twofold, int-rot:textures_related", "C03": "spin_skew"},
        strengthening=None,
    ),
    "C05c": dict(
        summary="update_orientations decides once per call whether the texture is static (self.regime in the null regimes) and then uses a unit strain-rate scale; the flag goes stale when get_regime switches during the call",
        needs="a get_regime callback, Mineral.regime a null regime at the start of the call (static attribute or left over from the previous call), the callback returning a dislocation regime, M* > 0, k != 1",
        detected_before_strengthening=False,
        detected_by={"C05": "rescale:* on histories whose static regime attribute is a null regime while the callback reports dislocation creep"},
        strengthening="with callback delivery the static attribute is now any other accepted regime, including the null ones",
    ),
    "C06c": dict(
        summary="'steady flow' shortcut: L sampled at the start, midpoint and end of the interval; if the three samples are bitwise equal eval_rhs uses the frozen matrix",
        needs="L identical at those three times while varying in between (particle crossing a compact shear zone, periodic L over whole periods, an on/off pulse)",
        detected_before_strengthening=False,
        detected_by={"C06": "F_equals_reference on pulsed fields (the defect model of known finding K10 -- capped solver step -- does not explain it)"},
        strengthening="new field class 'pulsed' (exactly zero variation at the start, midpoint and end of every update interval); this class also exposed known finding K10",
    ),
    "C07c": dict(
        summary="derivatives split into a wrapper plus derivatives_into(out...) called with per-mineral work arrays; the null-regime branches do nothing, so stale dislocation rates are returned after any texture-forming evaluation",
        needs="the same Mineral object first evaluated in a texture-forming regime, then updated in min/max_viscosity (attribute assignment or get_regime switch)",
        detected_before_strengthening=True,
        detected_by={"C07": "texture_unchanged[after_switch_to_null] (sub-oracle added after round 1)"},
        strengthening=None,
    ),
    "C08c": dict(
        summary="class-level dict Mineral._solver_defaults merged in place with the caller's kwargs: rtol / min_step / max_step of one call persist for every later call of any mineral",
        needs="an update with a non-default solver option followed by an update of another (or the same) mineral without it",
        detected_before_strengthening=False,
        detected_by={"C08": "c:interleaving_bit_identical (interleaved minerals use other solver options)"},
        strengthening="interleaved minerals in C08 (c) are driven with different solver options than the mineral under comparison",
    ),
    "C09c": dict(
        summary="perform_step applies apply_gbs in place on raw views of solver.y instead of on extract_vars output: negative integrated fractions are no longer clipped before the sliding mask is computed",
        needs="gbs_threshold exactly 0 and enough migration that shrinking grains undershoot to small negative volumes at the last solver step",
        detected_before_strengthening=True,
        detected_by={"C09": "call:chi0_nothing_frozen, hist:chi0_no_grain_frozen_or_floored, hist:stored_is_last_gbs_output"},
        strengthening=None,
    ),
    "C10c": dict(
        summary="two cooperating edits in voigt_averages: per-mineral tensor/fraction lookups hoisted in listing order, then minerals sorted by phase before the loop that zips both",
        needs="two minerals of different phases listed as [enstatite, olivine] with different textures or unequal fractions (K and G stay right)",
        detected_before_strengthening=True,
        detected_by={"C10": "order_independent, equals_reference_average (minerals lists in both orders)"},
        strengthening=None,
    ),
    "C11c": dict(
        summary="voigt_to_elastic_tensor became a Python wrapper memoising results in a module-level dict keyed by the matrix bytes and returning the cached array itself (no copy)",
        needs="convert M, edit the returned tensor in place (e.g. GPa -> Pa), convert an equal matrix again: the second call returns the edited tensor",
        detected_before_strengthening=False,
        detected_by={"C11": "returned_arrays_are_fresh/voigt_to_elastic_tensor"},
        strengthening="generic fresh-output oracle (call, scramble every returned array in place, call again, compare with a copy of the first result) on the tensors functions, poles/lambert/to_spherical, elasticity_components and voigt_averages",
    ),
    "C12c": dict(
        summary="helper flips each eigenvector so that its largest-magnitude component is positive and the SCCS averaging drops its sign-of-dot-product bookkeeping",
        needs="a frame in which a symmetry axis has its two largest components nearly equal and opposite in sign (Voigt averages: ~0.4 % of random frames; orthorhombic tensors: 45-degree rotations about a coordinate axis)",
        detected_before_strengthening=True,
        detected_by={"C12": "frame_independent_scalars, hexagonal_axis_corotates (hostile rotations incl. pi / signed permutations, several frames per tensor)"},
        strengthening=None,
    ),
    "C13c": dict(
        summary="finite_strain computes F.F^T into a module-level Fortran-ordered scratch array and calls eigh(overwrite_a=True): the returned axis is a view into module state overwritten by the next call",
        needs="two finite_strain calls where the axis of the first is used after the second",
        detected_before_strengthening=True,
        detected_by={"C13": "finite_strain_subsequent_rotation / finite_strain_equals_svd (the oracle keeps the first axis while it evaluates F.Q and Q.F)"},
        strengthening=None,
    ),
    "C14c": dict(
        summary="misorientation_hist takes its work arrays from a grow-only module-level cache keyed by the operator count and passes the whole (possibly larger) arrays on: stale pairs of an earlier, larger texture are binned too",
        needs="an evaluation with N1 grains followed, in the same process or pool worker, by one with N2 < N1 grains for a system with the same number of operators",
        detected_before_strengthening=True,
        detected_by={"C14": "single_near_one, triclinic_equals_reference, frame_rotation (the relation shards mix texture sizes in one process); defect model for exempt systems does not reproduce the values"},
        strengthening=None,
    ),
    "C15c": dict(
        summary="resample_orientations no longer sorts by volume and draws uniformly when frac[0] == frac[-1] ('flat distribution' fast path that assumed sorted input)",
        needs="a non-uniform snapshot whose first and last grain have exactly equal volume (>= 3 grains), e.g. both at the sliding floor",
        detected_before_strengthening=True,
        detected_by={"C15": "post:zero_volume_never_drawn, law:* (duplicates / ties / zeros volume classes)"},
        strengthening=None,
    ),
    "C16c": dict(
        summary="read_scsv and save_scsv share a module-level csv dialect class whose skipinitialspace flag is set for non-space delimiters and never reset",
        needs="in one process: any call with a non-space delimiter, then read_scsv of a space-delimited file with an empty cell",
        detected_before_strengthening=True,
        detected_by={"C16": "roundtrip_completes (ValueError) -- the generator mixes delimiters within one process"},
        strengthening=None,
    ),
    "C17c": dict(
        summary="Mineral.save builds its fields lazily (generator) and opens the archive before pulling them: the np.stack shape check of later snapshots runs after meta_<postfix> has been written",
        needs="save with a postfix of a mineral whose first snapshot is consistent but a later snapshot has the wrong size: ValueError is raised but the archive was created / modified",
        detected_before_strengthening=True,
        detected_by={"C17": "rejected_without_writing (directory listing before/after, fault 'ragged')"},
        strengthening=None,
    ),
    "C18c": dict(
        summary="get_pathline takes its solve_ivp options from a module-level defaults dict through a helper that writes the caller's overrides into that dict",
        needs="a get_pathline call overriding a solver option (coarse preview), then a call relying on the defaults",
        detected_before_strengthening=False,
        detected_by={"C18": "pathline_options_do_not_leak (default request, coarse preview, default request again must be identical)"},
        strengthening="A / coarse B / A sequence on a quarter of the pathline cases",
    ),
    "C19c": dict(
        summary="parse_config takes its [output] defaults from a module-level dict that is also the fallback for a missing [output] table and is filled in place",
        needs="two parses in one process of configs without an [output] table and with different phase assemblages",
        detected_before_strengthening=False,
        detected_by={"C19": "config_parses / config_defaults_and_values on configs that omit the whole [output] table"},
        strengthening="a sixth of the generated configurations omit the [output] table altogether",
    ),
    "C20c": dict(
        summary="poles() extracts the two in-plane columns with np.delete(directions, upward, axis=1).T, silently assuming the two reference letters are in ascending order",
        needs="ref_axes in descending letter order ('yx', 'zx', 'zy')",
        detected_before_strengthening=True,
        detected_by={"C20": "poles_equal_reference (all six reference strings)"},
        strengthening=None,
    ),
    # ---- round 4 (error paths, entry points, large counts, conventions) -----------------------------------------
    "C01d": dict(
        summary="update_all wraps each update in try/except and 'rolls back' on failure with an off-by-one slice (minerals[:i+1]): the failing "
                "mineral, which appended nothing, loses its latest earlier snapshot",
        needs="pydrex.update_all, one rejected call in the history (unsupported regime from get_regime, phase omitted from the assemblage, raising callback), "
              "and inspection of the failing mineral's stored history afterwards",
        detected_before_strengthening=False,
        detected_by={"C01": "bulk_history_append_only (two-phase histories through update_all with one rejected segment)",
                     "C07": "history_untouched_after_failure/bulk"},
        strengthening="new C01 case kind bulk_rejection and new C07 case kind bulk_failure: every mineral's history is digested before and after every "
                      "update_all call, accepted or rejected",
    ),
    "C02d": dict(
        summary="grain-boundary-migration law factored into a jitted helper; the frictional_yielding call site omits volume_fraction (default 1.0)",
        needs="regime frictional_yielding with phase fraction < 1, M* > 0 and unequal strain energies",
        detected_before_strengthening=True,
        detected_by={"C02": "volume_rate_equals_reference (reference model, regime x phase fraction varied jointly)"},
        strengthening=None,
    ),
    "C03d": dict(
        summary="mean strain energy accumulated as a running weighted mean inside the grain loop: fractions[i]/volume is 0/0 while the accumulated volume is zero",
        needs="fractions[0] == 0.0 exactly (leading zero-volume grain, one-hot vector whose dominant grain is not grain 0)",
        detected_before_strengthening=True,
        detected_by={"C03": "returns_without_raising (volume classes with exact zeros in every position)"},
        strengthening=None,
    ),
    "C04d": dict(
        summary="the two no-slip exits of _get_rotation_and_strain return a passive rigid rotation computed as W^T.A instead of A.W^T (row/column mix-up)",
        needs="a grain with exactly zero slip invariants (axis-aligned grain in an axis-aligned flow) and vorticity about another axis",
        detected_before_strengthening=True,
        detected_by={"C04": "rate:twofold / rate:rotation on axis-aligned textures in axis-aligned flows"},
        strengthening=None,
    ),
    "C05d": dict(
        summary="eval_rhs no longer divides the strain-rate tensor handed to derivatives by strain_rate_max; enstatite's absolute 1e-15 activity threshold "
                "then depends on the dimensional rate",
        needs="enstatite, a dislocation regime, k ~ 1 compared with geological k <= 1e-12",
        detected_before_strengthening=True,
        detected_by={"C05": "rescale:textures_related (k down to 1e-16, all six phase/fabric combinations)"},
        strengthening=None,
    ),
    "C06d": dict(
        summary="a mineral whose phase is missing from phase_assemblage is now 'tolerated' instead of crashing LSODA, but its branch advances F with F.L instead of L.F",
        needs="mineral outside the assemblage whose return value is used (alone or last in update_all) and F, L that do not commute",
        detected_before_strengthening=False,
        detected_by={"C06": "omitted_phase_F_equals_reference"},
        strengthening="C06 drives a mineral whose phase is omitted from the assemblage (alone and last in update_all): refused (counted) or F equals the reference",
    ),
    "C07d": dict(
        summary="update_all skips, with a warning, any mineral whose phase is not in phase_assemblage: invalid phase ordinals are silently dropped and numbers returned",
        needs="pydrex.update_all with an invalid-phase mineral plus at least one valid mineral",
        detected_before_strengthening=False,
        detected_by={"C07": "bulk_update_rejected/phase"},
        strengthening="new C07 case kind bulk_failure: rejected mineral (phase ordinal / regime / fabric / get_regime) at every position of an update_all list",
    ),
    "C08d": dict(
        summary="frictional_yielding branch of derivatives: 'retained_fraction' replaced volume_fraction in the product, so the phase's own fraction is unused there",
        needs="regime frictional_yielding in a genuine multiphase aggregate with M* > 0",
        detected_before_strengthening=True,
        detected_by={"C08": "a:* (multiphase vs single-phase with phi*M*, regimes 4 and 6)", "C02": "volume_rate_equals_reference", "C03": "linear_in_volume_fraction"},
        strengthening=None,
    ),
    "C09d": dict(
        summary="perform_step hands apply_gbs the threshold chi * (phase volume fraction)",
        needs="two-phase parameters (phase fraction < 1), chi > 0 and a grain below chi/n",
        detected_before_strengthening=False,
        detected_by={"C09": "hist:sliding_uses_mineral_threshold_and_grain_count; hist:stored_floor on two-phase histories"},
        strengthening="half of the C09 histories (and a quarter of all generated histories, drive.random_history_case) are one phase of a two-phase "
                      "assemblage; new sub-oracle compares the threshold and grain count handed to apply_gbs with the mineral's own",
    ),
    "C10d": dict(
        summary="voigt_averages selects the stiffness tensor with `mineral.phase is MineralPhase.olivine`: minerals restored from NPZ (phase = np.uint8) or "
                "built with a plain int fall into the enstatite branch",
        needs="olivine mineral obtained through Mineral.from_file / Mineral.load or constructed with phase=0",
        detected_before_strengthening=False,
        detected_by={"C10": "equals_reference_average on minerals=from_file/load/int_phase/np_phase"},
        strengthening="C10 minerals now come from five origins: built, from_file, load, plain-int phase, NumPy-int phase",
    ),
    "C11d": dict(
        summary="polar_decompose forces a proper rotation by flipping the last singular pair when det(U.Vh) < 0: the stretch becomes indefinite",
        needs="full-rank orientation-reversing input (det M < 0)",
        detected_before_strengthening=True,
        detected_by={"C11": "polar_left / polar_right (psd clause; reflections and negative-definite inputs in the matrix catalogue)"},
        strengthening=None,
    ),
    "C12d": dict(
        summary="elasticity_components Gram-Schmidt-orthogonalises the averaged SCCS axes without re-normalising: hexagonal axis shorter than 1",
        needs="non-orthorhombic tensor (Voigt average of a texture) whose best hexagonal axis is not SCCS axis 2",
        detected_before_strengthening=True,
        detected_by={"C12": "hexagonal_axis_unit (texture averages incl. enstatite)"},
        strengthening=None,
    ),
    "C13d": dict(
        summary="_scatter_matrix divides by N - 1 ('covariance-style'): inf/NaN for a single grain, all three diagnostics raise",
        needs="an aggregate of exactly one grain",
        detected_before_strengthening=False,
        detected_by={"C13": "repository_call_completes (raises/ValueError@symmetry_pgr)"},
        strengthening="the one-grain cases were generated already but the exception crashed the shard (inconclusive, exit 2); the harness now records an "
                      "exception escaping from repository code on a generated valid input as a failing oracle evaluation keyed raises/<Type>@<function>",
    ),
    "C14d": dict(
        summary="misorientation_hist processes pairs in blocks of 2**20 and returns the unweighted mean of per-block normalised histograms",
        needs="at least 1449 grains (> 2**20 pairs); large effect for non-exchangeable listings (cluster listed last)",
        detected_before_strengthening=False,
        detected_by={"C14": "permutation_invariant on n=1449 with a 32-grain cluster listed last"},
        strengthening="C14 relation cases with 1449-2000 grains (quick: one triclinic case; thorough: triclinic/orthorhombic/monoclinic)",
    ),
    "C15d": dict(
        summary="uniform variates drawn as float32: exactly 0.0 once in 2**24 draws, which selects the smallest (zero-volume) grain",
        needs="a zero-volume grain and ~1e7 draws",
        detected_before_strengthening=False,
        detected_by={"C15": "post:zero_volume_never_drawn on zero_hunt cases"},
        strengthening="new C15 case kind zero_hunt: 2e8 draws per quick run (6.4e9 thorough) from stacks with empty grains",
    ),
    "C16d": dict(
        summary="header writer emits non-finite float fills as .nan/.inf and loses the sign of -inf",
        needs="float fill -inf and a cell equal to -inf",
        detected_before_strengthening=True,
        detected_by={"C16": "roundtrip_values (fills drawn from special floats incl. -inf)"},
        strengthening=None,
    ),
    "C17d": dict(
        summary="Mineral.save preallocates and fills snapshot by snapshot (slice assignment broadcasts) instead of np.stack: a later snapshot of size 1 is replicated and written",
        needs=">= 2 snapshots, n_grains > 1, first snapshot consistent, a later one of shape (1,), 0-d, (1,3,3) or (3,3)",
        detected_before_strengthening=False,
        detected_by={"C17": "rejected_without_writing (reject/size_mismatch/<array>/<shape>/accepted)"},
        strengthening="C17 corrupt states now cover first/middle/last snapshot x fractions/orientations/both x {n+1, n-1, 1, 0-d, one 3x3, empty}",
    ),
    "C18d": dict(
        summary="regular_steps branch of get_pathline starts the resampled timestamps at path.t_events[0][-1]: IndexError when no terminal event fired",
        needs="regular_steps given and a flow so slow that neither strain limit nor box is reached within the 100 Myr horizon",
        detected_before_strengthening=False,
        detected_by={"C18": "pathline_returned (pathline_raises/IndexError) on slow flows"},
        strengthening="one pathline case in seven uses amplitudes 1e-20..3e-17 (class pathline/spans_whole_horizon)",
    ),
    "C19d": dict(
        summary="_parse_phase merges the enum and int branches into `if phase in tuple(MineralPhase): return phase`: integer codes stay plain ints "
                "(TypeError later with default outputs), 1.0 accepted",
        needs="phase_assemblage given by integer code in the TOML file",
        detected_before_strengthening=False,
        detected_by={"C19": "config_parses (config_raises/TypeError); config_invariants"},
        strengthening="generated configurations give phases by name, by integer code or mixed; new fault configs phase_code_float / negative / nested",
    ),
    "C20d": dict(
        summary="to_spherical colatitude computed as arccos(z/r) again (the defect repaired by 9c744e2)",
        needs="points close to but not on the z axis",
        detected_before_strengthening=True,
        detected_by={"C20": "spherical_roundtrip (near-polar points)"},
        strengthening=None,
    ),
    # ---- round 5 (code no earlier attempt touched; thin slices of the input domain) -------------------------------
    "C01e": dict(
        summary="no-slip exits of _get_rotation_and_strain return a 'passive rotation' A.L^T (full velocity gradient) instead of zero / A.W^T: rate not tangent to SO(3)",
        needs="grain with exactly zero slip invariants (axis-aligned grain, coaxial strain rate) and a symmetric part of L",
        detected_before_strengthening=True,
        detected_by={"C01": "spin_skew[in-solver] / orthonormal on aligned textures", "C03": "spin_skew"},
        strengthening=None,
    ),
    "C02e": dict(
        summary="enstatite branch sorts slip systems with argsort(crss) instead of argsort(1/crss): the strain-energy kernel skips the only active system, all enstatite volume rates are 0",
        needs="enstatite, M* > 0, >= 2 grains with different slip rates",
        detected_before_strengthening=True,
        detected_by={"C02": "volume_rate_equals_reference"},
        strengthening=None,
    ),
    "C03e": dict(
        summary="_get_strain_energy computes the dislocation density in log space: 0*log(inf) = NaN for infinite-CRSS systems when p == n",
        needs="stress_exponent == deformation_exponent exactly (p = n = 2 lies in both documented ranges); enstatite always, olivine for grains with an exactly unresolved finite-CRSS system",
        detected_before_strengthening=False,
        detected_by={"C03": "rates_finite[direct]", "C02": "reference model"},
        strengthening="gen.exponents(): end points, odd/even whole numbers and the coincidence p = n = 2 are drawn explicitly (C02, C03, C04 direct calls and every history)",
    ),
    "C04e": dict(
        summary="_get_slip_rates_olivine: whole-number deformation exponents use ratio**int(n), which drops sign(I_s/I_max) for even n",
        needs="olivine, n an even whole number (2, 4), a check of the lattice two-fold half of the property",
        detected_before_strengthening=True,
        detected_by={"C04": "int-2fold:textures_related (histories draw whole-number exponents)"},
        strengthening="rate-level relations now draw whole-number exponents as well (gen.exponents)",
    ),
    "C05e": dict(
        summary="LSODA set-up refuses intervals whose default first step |dt|/10 is below sqrt(eps) = 1.5e-8 -- an absolute time in the caller's units",
        needs="k >= 1e2 together with an update interval shorter than 1.5e-7*k in strain (uneven partitions, near-duplicate timestamps)",
        detected_before_strengthening=False,
        detected_by={"C05": "rescale:pair_runs_complete (raises/ValueError at k = 1e2, 1e3 on refined partitions)"},
        strengthening="histories may contain one very short interval (1e-6..1e-10 of the span, 'refine'); C05 pairs such histories with k in {1e2, 1e3}",
    ),
    "C06e": dict(
        summary="update_all returns sum_i phi_i F_i ('volume-weighted aggregate F') without normalising by the weights actually used",
        needs="update_all with minerals whose phase fractions do not sum to 1 (subset of the assemblage, duplicate phases)",
        detected_before_strengthening=True,
        detected_by={"C06": "update_all_returns_single_phase_F (one-mineral list under a two-phase assemblage)"},
        strengthening=None,
    ),
    "C07e": dict(
        summary="Mineral.__post_init__ converts ordinals with tuple(Enum)[ordinal] and only checks the upper bound: negative ordinals wrap onto valid members",
        needs="a negative out-of-range regime/phase/fabric ordinal handed to the Mineral constructor",
        detected_before_strengthening=True,
        detected_by={"C07": "rejected_with_ValueError/returned_numbers (Mineral-level ordinal grid incl. -1)"},
        strengthening=None,
    ),
    "C08e": dict(
        summary="phase-fraction lookup sorts phase_assemblage before .index() while phase_fractions stays in the caller's order",
        needs="assemblage listed (enstatite, olivine) with unequal fractions",
        detected_before_strengthening=True,
        detected_by={"C08": "b:permutation_bit_identical, a:*"},
        strengthening=None,
    ),
    "C09e": dict(
        summary="apply_gbs mask rewritten as fractions*n_grains < chi: differs from fractions < chi/n_grains within one ulp of the threshold",
        needs="a grain exactly at (or one ulp below) chi/n_grains for (chi, n) pairs where fl(fl(chi/n)*n) != chi",
        detected_before_strengthening=True,
        detected_by={"C09": "call:frozen_orientation_is_reference on threshold_ties volumes"},
        strengthening=None,
    ),
    "C10e": dict(
        summary="third input-consistency check of voigt_averages iterates over minerals[1:]: the first-listed mineral's fractions count is never checked",
        needs="first-listed (or only) mineral with more fractions snapshots than orientations snapshots",
        detected_before_strengthening=False,
        detected_by={"C10": "rejects_mismatch (reject=n_fraction_lists/first|only)"},
        strengthening="C10 rejection cases place the inconsistent mineral second, first, or alone; fractions longer or shorter than orientations",
    ),
    "C11e": dict(
        summary="tensors.rotate zeroes output components below 1e-10 in absolute value ('round-off noise')",
        needs="a tensor with genuine components below 1e-10 (compliance in 1/Pa)",
        detected_before_strengthening=False,
        detected_by={"C11": "rotate_law / rotate_preserves_norm at magnitude<1e-6"},
        strengthening="C11 magnitudes 1e-14..1e14 and purely relative tolerances (every map is homogeneous); units varied in C10 and C12 too",
    ),
    "C12e": dict(
        summary="voigt_decompose refactored into a loop that fills only the lower triangle of the deviatoric contraction, which upper_tri_to_symmetric then discards",
        needs="a principal axis within 10 degrees of a lab axis without coinciding with it (~7 % of random rotations; every small tilt)",
        detected_before_strengthening=True,
        detected_by={"C12": "frame_independent_scalars (hostile rotations incl. tiny)", "C11": "contractions"},
        strengthening=None,
    ),
    "C13e": dict(
        summary="symmetry_pgr 'symmetrises' a scatter matrix that is stored as lower triangle only: off-diagonals halved",
        needs="a fabric oblique to the reference axes",
        detected_before_strengthening=True,
        detected_by={"C13": "pgr_equals_reference, frame relations"},
        strengthening=None,
    ),
    "C14e": dict(
        summary="misorientations_random: shared prefactor k = M/90 replaces N/180 in the second branch (equal only when N == 2M)",
        needs="monoclinic lattice system",
        detected_before_strengthening=True,
        detected_by={"C14": "theory_integrates_to_one (monoclinic)"},
        strengthening=None,
    ),
    "C15e": dict(
        summary="shape validation computes len(fractions) before the rank guard: TypeError for 0-d fractions instead of ValueError",
        needs="fractions given as a bare number / 0-d array / None",
        detected_before_strengthening=False,
        detected_by={"C15": "malformed_rejected/wrong_exception"},
        strengthening="malformed catalogue extended down to rank 0 for either argument, Python/NumPy scalars and None",
    ),
    "C16e": dict(
        summary="_parse_scsv_cell guards the 'fill NaN means float NaN' special case with func.__qualname__ != 'string' (always true): string columns read 'nan'",
        needs="string field with fill exactly 'NaN' and a missing cell",
        detected_before_strengthening=True,
        detected_by={"C16": "roundtrip_values"},
        strengthening=None,
    ),
    "C17e": dict(
        summary="loaders validate meta with range(min_viscosity, max_viscosity): the last regime (ordinal 7) is rejected as corrupt",
        needs="mineral with regime max_viscosity",
        detected_before_strengthening=True,
        detected_by={"C17": "from_file_restores_exactly / load_restores_exactly (all regimes drawn)"},
        strengthening=None,
    ),
    "C18e": dict(
        summary="strain_increment from the first two invariants of D (exact only when det D = 0)",
        needs="a genuinely three-dimensional strain rate",
        detected_before_strengthening=True,
        detected_by={"C18": "strain_increment vs eigvalsh on generic 3x3 gradients"},
        strengthening=None,
    ),
    "C19e": dict(
        summary="input-method selection by the first matching key as written in the [input] table instead of the priority mesh > velocity_gradient > paths",
        needs="an [input] table that also holds the (ignored) key of a lower-priority method, written before the higher-priority one",
        detected_before_strengthening=False,
        detected_by={"C19": "config_defaults_and_values (mode-specific input section), config_parses"},
        strengthening="a third of the generated configurations carry ignored keys of other input methods; [input] key order is permuted",
    ),
    "C20e": dict(
        summary="axial folding moved from point_density into the counting kernels, schmidt_count forgotten",
        needs="kernel schmidt_count with axial data",
        detected_before_strengthening=True,
        detected_by={"C20": "density_equals_clipped_reference / sign independence for every kernel"},
        strengthening=None,
    ),
}


def main():
    for sid, m in META.items():
        d = os.path.join(HERE, "seeded", sid)
        if not os.path.isdir(d):
            continue
        meta = {"property": sid, "origin": "independent sub-agent given only the property text and a scratch worktree", **m,
                "confirmed_how": CONFIRM.replace("<ID>", sid), "checks_run_how": DETECT.replace("<ID>", sid)}
        json.dump(meta, open(os.path.join(d, "meta.json"), "w"), indent=1)
        print("wrote", sid)


if __name__ == "__main__":
    main()
