#!/bin/bash
# Re-run every archived seeded change against its own property's quick check (3 at a time) and print one line each.
#   tools/regress_seeded.sh [tier]
cd "$(dirname "$0")/.."
TIER=${1:-quick}
ls seeded | xargs -P 3 -I{} bash -c 'id={}; c=${id:0:3}; rm -rf /tmp/seedrun/evidence-$id; tools/run_seeded.sh $id '"$TIER"' $c | cut -c1-260'
