import numpy as np, pydrex, sys, time
from pydrex import minerals as mn, tensors as T, MineralPhase as P, MineralFabric as Fb, DeformationRegime as R, diagnostics as D
from scipy.spatial.transform import Rotation
import logging
from pydrex import logger; logger.CONSOLE_LOGGER.setLevel(logging.CRITICAL); sys.excepthook=sys.__excepthook__
S=mn.StiffnessTensors()
def KG(C): return ((C[0,0]+C[1,1]+C[2,2]+2*(C[0,1]+C[0,2]+C[1,2]))/9, (C[0,0]+C[1,1]+C[2,2]-(C[0,1]+C[0,2]+C[1,2])+3*(C[3,3]+C[4,4]+C[5,5]))/15)
ol=pydrex.Mineral(P.olivine,Fb.olivine_A,R.matrix_dislocation,n_grains=20,seed=1)
en=pydrex.Mineral(P.enstatite,Fb.enstatite_AB,R.matrix_dislocation,n_grains=20,seed=2)
for label,mins,ass,fr in (('ol only',[ol],[P.olivine],[1.0]),('en only',[en],[P.enstatite],[1.0]),('ol,en',[ol,en],[P.olivine,P.enstatite],[0.7,0.3]),('en,ol',[en,ol],[P.enstatite,P.olivine],[0.3,0.7]),('minerals swapped',[en,ol],[P.olivine,P.enstatite],[0.7,0.3])):
    C=mn.voigt_averages(mins,ass,fr)[0]
    K,G=KG(C); exp=[sum(f*KG({P.olivine:S.olivine,P.enstatite:S.enstatite}[p])[i] for p,f in zip(ass,fr)) for i in (0,1)]
    print(label,'K',K,'exp',exp[0],'G',G,'exp',exp[1],'sym',np.abs(C-C.T).max())
one=pydrex.Mineral(P.olivine,Fb.olivine_A,R.matrix_dislocation,n_grains=1,orientations_init=np.eye(3)[None],fractions_init=np.ones(1))
print('aligned',np.abs(mn.voigt_averages([one],[P.olivine],[1.0])[0]-S.olivine).max())
t=time.time(); big=pydrex.Mineral(n_grains=3500,seed=1); mn.voigt_averages([big],[P.olivine],[1.0]); print('3500 grains voigt',time.time()-t)
