"""Independent vectorised reference of the published D-Rex rates (K&R 2001, KRB 2004, F&B 2021)."""
import numpy as np
EPS = np.zeros((3,3,3)); EPS[0,1,2]=EPS[1,2,0]=EPS[2,0,1]=1; EPS[0,2,1]=EPS[2,1,0]=EPS[1,0,2]=-1
# slip systems: (plane normal, direction) as crystal axis indices, documented order
SYSTEMS = [ (1,0), (2,0), (1,2), (0,2) ]   # (010)[100], (001)[100], (010)[001], (100)[001]
CRSS = {('olivine','A'):[1,2,3,np.inf],('olivine','B'):[3,2,1,np.inf],('olivine','C'):[3,2,np.inf,1],
        ('olivine','D'):[1,1,3,np.inf],('olivine','E'):[3,1,2,np.inf],('enstatite','AB'):[np.inf,np.inf,np.inf,1]}
def ref_rates(phase, fabric, A, f, L, p, n, lam, M, phi, damping=1.0, energy_systems='active'):
    A=np.asarray(A,float); N=len(A)
    D=(L+L.T)/2
    tau=np.array(CRSS[(phase,fabric)],float)
    l=np.stack([A[:,d,:] for (_,d) in SYSTEMS],1)   # N,4,3 slip directions in external frame
    m=np.stack([A[:,pl,:] for (pl,_) in SYSTEMS],1)  # N,4,3 plane normals
    I=np.einsum('gsi,ij,gsj->gs',l,D,m)
    act=np.abs(I/tau)
    beta=np.zeros((N,4))
    if phase=='olivine':
        order=np.argsort(act,axis=1)
        imax=order[:,3]
        rows=np.arange(N)
        Imax=I[rows,imax]; tmax=tau[imax]
        with np.errstate(all='ignore'):
            ratio=(I/tau)*(tmax/Imax)[:,None]
            b=ratio*np.abs(ratio)**(n-1)
        b[rows,order[:,0]]=0.0
        b[rows,imax]=1.0
        beta=b
    else:
        beta[:,3]=(np.abs(I[:,3])>1e-15)*1.0
    G=2*np.einsum('gs,gsi,gsj->gij',beta,l,m)
    W=lambda X: X-np.swapaxes(X,-1,-2)
    num=2*np.einsum('gij,ij->g',G,L)-0.5*np.einsum('gij,ij->g',W(G),W(L))
    den=2*np.einsum('gij,gij->g',G,G)-0.5*np.einsum('gij,gij->g',W(G),W(G))
    with np.errstate(all='ignore'):
        gam=np.where(np.abs(den)<1e-15,0.0,num/den)
    # spin vector w_j = 1/2 eps_jrs? : w_j = ((L_sr - L_rs) - (G_sr-G_rs) gam)/2 with (j,r,s) cyclic
    X=L[None]-G*gam[:,None,None]
    w=0.5*np.einsum('jrs,gsr->gj',EPS,X)
    dA=np.einsum('qrs,gps,gr->gpq',EPS,A,w)
    with np.errstate(all='ignore'):
        rho=(1/tau)**(n-p)*np.abs(beta*gam[:,None])**(p/n)
    rho=np.where(beta==0,0.0,rho)
    e=rho*np.exp(-lam*rho**2)
    if energy_systems=='active': E=e.sum(1)
    else: E=e[:,:3].sum(1)
    Em=(f*E).sum()
    df=phi*M*f*(Em-E)
    return damping*dA, damping*df, dict(I=I,act=act,beta=beta,gam=gam,E=E,w=w)
