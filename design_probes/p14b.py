import numpy as np, time, os, sys, hashlib, multiprocessing as mp
import pydrex
from pydrex import diagnostics as dg, geometry as geo
from scipy.spatial.transform import Rotation
import logging
from pydrex import logger; logger.CONSOLE_LOGGER.setLevel(logging.CRITICAL); sys.excepthook=sys.__excepthook__
LOG='/tmp/probe/pool.log'
orig=dg.misorientation_index
def misorientation_index(orientations, system, bins=None):
    h=int(hashlib.sha1(np.ascontiguousarray(orientations).tobytes()).hexdigest()[:8],16)
    t0=time.monotonic()
    time.sleep((h%40)/1000)
    out=orig(orientations,system,bins)
    with open(LOG,'a') as f: f.write(f"{os.getpid()} {h} {t0} {time.monotonic()}\n")
    return out
misorientation_index.__module__='pydrex.diagnostics'; misorientation_index.__qualname__='misorientation_index'
dg.misorientation_index=misorientation_index
stack=np.array([Rotation.random(30,random_state=i).as_matrix() for i in range(9)])
serial=[orig(s,geo.LatticeSystem.orthorhombic) for s in stack]
hashes=[int(hashlib.sha1(np.ascontiguousarray(s).tobytes()).hexdigest()[:8],16) for s in stack]
for ncpus in (1,3,8):
    open(LOG,'w').close()
    t=time.time(); out=dg.misorientation_indices(stack,geo.LatticeSystem.orthorhombic,ncpus=ncpus)
    lines=[l.split() for l in open(LOG)]
    order=[hashes.index(int(l[1])) for l in lines]
    print(ncpus,'equal',np.array_equal(out,serial),'pids',len({l[0] for l in lines}),'completion order',order,'%.2fs'%(time.time()-t))
with mp.Pool(4) as pool:
    open(LOG,'w').close()
    out=dg.misorientation_indices(stack,geo.LatticeSystem.orthorhombic,pool=pool)
    lines=[l.split() for l in open(LOG)]
    print('ext pool equal',np.array_equal(out,serial),'pids',len({l[0] for l in lines}),[hashes.index(int(l[1])) for l in lines])
