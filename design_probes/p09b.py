import numpy as np, pydrex, sys, warnings
from pydrex import utils as U
from pydrex.core import *
import logging
from pydrex import logger; logger.CONSOLE_LOGGER.setLevel(logging.CRITICAL); sys.excepthook=sys.__excepthook__
orig=U.apply_gbs
calls=[]
def apply_gbs(orientations, fractions, gbs_threshold, orientations_prev, n_grains):
    a_in=orientations.copy(); f_in=fractions.copy(); p_in=orientations_prev.copy()
    o,f=orig(orientations, fractions, gbs_threshold, orientations_prev, n_grains)
    calls.append(dict(a_in=a_in,f_in=f_in,prev=p_in,chi=gbs_threshold,n=n_grains,a_out=o.copy(),f_out=f.copy(),prev_after=orientations_prev.copy()))
    return o,f
U.apply_gbs=apply_gbs
L=np.array([[0,0,2.],[0,0,0],[0,0,0]])
chi=0.3
m=pydrex.Mineral(n_grains=100,seed=4); p=DefaultParams().as_dict(); p['gbs_threshold']=chi; p['gbm_mobility']=200
F=np.eye(3)
for k in range(3):
    calls.clear()
    F=m.update_orientations(p,F,lambda t,x:L,(k*0.25,(k+1)*0.25,lambda t:np.zeros(3)))
    thr=chi/100
    for i,c in enumerate(calls):
        mask=c['f_in']<thr
        c1=np.array_equal(c['a_out'][mask],c['prev'][mask]); c2=np.array_equal(c['a_out'][~mask],c['a_in'][~mask])
        exp=np.where(mask,thr,c['f_in']); exp=exp/exp.sum()
        c3=np.abs(c['f_out']-exp).max(); c4=np.array_equal(c['prev'],c['prev_after']); c5=np.array_equal(c['prev'],m.orientations[-2])
        srt=np.argsort(c['f_in'],kind='stable'); c6=np.diff(c['f_out'][srt]).min()
        if not(c1 and c2 and c3<1e-15 and c4 and c5 and c6>=-1e-18): print('call',k,i,c1,c2,c3,c4,c5,c6,'sum f_in',c['f_in'].sum())
    last=calls[-1]; mask=last['f_in']<thr
    s1=np.array_equal(m.orientations[-1][mask],m.orientations[-2][mask]); s2=np.abs(m.orientations[-1]-last['a_out'].clip(-1,1)).max()
    fr=last['f_out'].clip(0,None); fr=fr/fr.sum(); s3=np.abs(m.fractions[-1]-fr).max()
    print('stored',k,s1,s2,s3)
