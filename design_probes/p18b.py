import numpy as np, pydrex, warnings, collections, sys
from pydrex import velocity as V, pathlines as P, utils as U
from scipy.integrate import solve_ivp
import logging
from pydrex import logger; logger.CONSOLE_LOGGER.setLevel(logging.CRITICAL); sys.excepthook=sys.__excepthook__
rng=np.random.default_rng(1)
warnings.simplefilter('ignore')
def check(u,L,x,lo,hi,ms,steps=None):
    ts,pos=P.get_pathline(x,u,L,lo,hi,ms,regular_steps=steps)
    tt=np.linspace(ts[0],ts[-1],2001); X=np.array([pos(t) for t in tt])
    sr=np.array([np.abs(np.linalg.eigvalsh((L(np.nan,xx)+L(np.nan,xx).T)/2)).max() if np.all(xx>=lo) and np.all(xx<=hi) else 0.0 for xx in X])
    strain=np.trapezoid(sr,tt)
    out=max((lo-X).max(),(X-hi).max())
    fwd=solve_ivp(lambda t,y:u(np.nan,np.clip(y,lo,hi)),(ts[0],0),pos(ts[0]),method='DOP853',rtol=1e-10,atol=1e-12)
    end_err=np.abs(fwd.y[:,-1]-x).max()
    return dict(t0=ts[0],strain=strain,ratio=strain/ms,outside=out,end0=np.abs(pos(0)-x).max(),fwd_err=end_err,mono=bool(np.all(np.diff(ts)>0)),last=ts[-1])
res=collections.Counter(); worst=dict(ratio=0,outside=-1,fwd=0,end0=0)
for flow in ('corner','ss','cell'):
    for i in range(40):
        if flow=='corner':
            u,L=V.corner_2d('X','Z',1.0); lo=np.array([0,0,-2.]);hi=np.array([5,0,0.]); x=np.array([rng.uniform(0.05,4.9),0,rng.uniform(-1.9,-0.05)]); scale=5
        elif flow=='ss':
            u,L=V.simple_shear_2d('Y','X',0.5); lo=-np.ones(3);hi=np.ones(3); x=rng.uniform(-0.9,0.9,3); scale=1
        else:
            u,L=V.cell_2d('X','Z',1.0); lo=np.array([-1,0,-1.]);hi=np.array([1,0,1.]); x=np.array([rng.uniform(-0.95,0.95),0,rng.uniform(-0.95,0.95)]); scale=1
        ms=float(rng.choice([0.5,2,7]))
        try:
            r=check(u,L,x,lo,hi,ms,steps=rng.choice([None,20]))
        except Exception as e:
            res[flow+':'+type(e).__name__]+=1; continue
        flag = r['ratio']>1.25 or r['outside']>1e-3*scale or r['fwd_err']>1e-3*scale or r['end0']>1e-9 or not r['mono'] or r['last']!=0
        res[flow+(':BAD' if flag else ':ok')]+=1
        if flag: print(flow,x,ms,r)
        worst['ratio']=max(worst['ratio'],r['ratio']);worst['outside']=max(worst['outside'],r['outside']/scale);worst['fwd']=max(worst['fwd'],r['fwd_err']/scale);worst['end0']=max(worst['end0'],r['end0'])
print(res,worst)
