import numpy as np, pydrex, sys, warnings
from pydrex import utils as U
from pydrex.core import *
import logging
from pydrex import logger; logger.CONSOLE_LOGGER.setLevel(logging.CRITICAL); sys.excepthook=sys.__excepthook__
orig=U.apply_gbs
calls=[]
def apply_gbs(orientations, fractions, gbs_threshold, orientations_prev, n_grains):
    a_in=orientations.copy(); f_in=fractions.copy(); p_in=orientations_prev.copy()
    o,f=orig(orientations, fractions, gbs_threshold, orientations_prev, n_grains)
    calls.append(dict(a_in=a_in,f_in=f_in,prev=p_in,chi=gbs_threshold,n=n_grains,a_out=o.copy(),f_out=f.copy(),prev_after=orientations_prev.copy()))
    return o,f
U.apply_gbs=apply_gbs
rng=np.random.default_rng(0)
L=np.array([[0,0,2.],[0,0,0],[0,0,0]])
tot_frozen=0; bad=0
for chi in (0.0,0.3,0.9):
    m=pydrex.Mineral(n_grains=100,seed=4); p=DefaultParams().as_dict(); p['gbs_threshold']=chi; p['gbm_mobility']=200
    F=np.eye(3)
    for k in range(8):
        calls.clear()
        F=m.update_orientations(p,F,lambda t,x:L,(k*0.25,(k+1)*0.25,lambda t:np.zeros(3)))
        last=calls[-1]; thr=chi/100
        for c in calls:
            mask=c['f_in']<thr
            ok=np.array_equal(c['a_out'][mask],c['prev'][mask]) and np.array_equal(c['a_out'][~mask],c['a_in'][~mask])
            exp=np.where(mask,thr,c['f_in']); exp=exp/exp.sum()
            ok&=np.allclose(c['f_out'],exp,rtol=0,atol=1e-15) and np.array_equal(c['prev'],c['prev_after']) and np.array_equal(c['prev'],m.orientations[-2])
            order_ok=np.all(np.diff(c['f_out'][np.argsort(c['f_in'],kind='stable')])>=-1e-18)
            if not (ok and order_ok): bad+=1
        mask=last['f_in']<thr; tot_frozen+=mask.sum()
        st_ok=np.array_equal(m.orientations[-1][mask],m.orientations[-2][mask]) and np.array_equal(m.orientations[-1],last['a_out'].clip(-1,1))
        fr=last['f_out'].clip(0,None); fr=fr/fr.sum()
        st_ok&=np.allclose(m.fractions[-1],fr,rtol=0,atol=1e-16) and m.fractions[-1].min()>=thr/(1+chi)*(1-1e-12)
        if not st_ok: bad+=1; print('stored mismatch',chi,k)
        print(chi,k,'calls',len(calls),'frozen at end',mask.sum(),'min f',m.fractions[-1].min(),'bound',thr/(1+chi))
print('bad',bad,'total frozen comparisons',tot_frozen)
