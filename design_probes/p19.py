import itertools, pydrex, tomllib, pathlib, traceback
from pydrex import io, core, mock, exceptions as err
import logging
from pydrex import logger; logger.CONSOLE_LOGGER.setLevel(logging.CRITICAL)
base_input='[input]\nvelocity_gradient = ["simple_shear_2d", "Y", "X", 5e-6]\nlocations_initial = "start.scsv"\ntimestep = 1e9\n'
params_opt={'phase_assemblage':'["olivine", "enstatite"]','phase_fractions':'[0.7, 0.3]','initial_olivine_fabric':'"B"','stress_exponent':'1.4','gbm_mobility':'10','number_of_grains':'100'}
out_opt={'directory':'"out"','raw_output':'["olivine"]','diagnostics':'["olivine"]','anisotropy':'true','log_level':'"DEBUG"'}
def attempt(txt,label):
    p=pathlib.Path('cfg/t.toml'); p.write_text(txt)
    try:
        c=io.parse_config(p); return 'ok',c
    except Exception as e:
        return type(e).__name__+': '+str(getattr(e,'message',e))[:70],None
print('minimal',attempt(base_input,'min')[0])
print('empty tables',attempt(base_input+'[output]\n[parameters]\n','')[0])
for k in params_opt:
    sub={kk:v for kk,v in params_opt.items() if kk!=k}
    if ('phase_assemblage' in sub) != ('phase_fractions' in sub): 
        r=attempt(base_input+'[output]\nraw_output=["olivine"]\ndiagnostics=["olivine"]\n[parameters]\n'+'\n'.join(f'{a} = {b}' for a,b in sub.items()),'')
        print('params minus',k,'(mismatch expected error)',r[0]); continue
    r=attempt(base_input+'[output]\nraw_output=["olivine"]\ndiagnostics=["olivine"]\n[parameters]\n'+'\n'.join(f'{a} = {b}' for a,b in sub.items()),'')
    print('params minus',k,r[0])
for k in out_opt:
    sub={kk:v for kk,v in out_opt.items() if kk!=k}
    r=attempt(base_input+'[output]\n'+'\n'.join(f'{a} = {b}' for a,b in sub.items())+'\n[parameters]\ninitial_olivine_fabric="A"\n','')
    print('output minus',k,r[0])
# presets
for name in dir(mock):
    if name.startswith('Params'):
        cls=getattr(mock,name); inst=cls()
        diffs={k:(getattr(cls,k),getattr(inst,k),inst.as_dict()[k]) for k in core.DefaultParams.__dataclass_fields__ if k in cls.__dict__ and (getattr(inst,k)!=cls.__dict__[k] or inst.as_dict()[k]!=cls.__dict__[k])}
        print(name,diffs)
