import numpy as np, pydrex
from pydrex import core
from pydrex.core import *
def run(fabric, phase, L, A, regime=DeformationRegime.matrix_dislocation, f=None, **kw):
    A=np.asarray(A,float)
    n=len(A)
    f=np.full(n,1/n) if f is None else f
    D=(L+L.T)/2
    return core.derivatives(regime, phase, fabric, n, A, f, D, L, np.zeros((3,3)), kw.get('p',1.5), kw.get('n',3.5), kw.get('lam',5.0), kw.get('M',125.0), kw.get('phi',1.0))
I=np.eye(3)[None]
for fab in [MineralFabric.olivine_A,MineralFabric.olivine_B,MineralFabric.olivine_C,MineralFabric.olivine_D,MineralFabric.olivine_E]:
  for (i,j) in [(0,1),(0,2),(1,0),(1,2),(2,0),(2,1)]:
    L=np.zeros((3,3));L[i,j]=2.0
    try:
        o,fr=run(fab,MineralPhase.olivine,L,I)
        print(fab.name,(i,j),'ok',np.isfinite(o).all(), fr)
    except Exception as e:
        print(fab.name,(i,j),type(e).__name__,e)
for (i,j) in [(0,1),(0,2),(1,0),(1,2),(2,0),(2,1)]:
    L=np.zeros((3,3));L[i,j]=2.0
    try:
        o,fr=run(MineralFabric.enstatite_AB,MineralPhase.enstatite,L,I)
        print('ens',(i,j),'ok',np.isfinite(o).all(), fr)
    except Exception as e:
        print('ens',(i,j),type(e).__name__,e)
