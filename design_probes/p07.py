import numpy as np, pydrex, time, warnings
from pydrex.core import *
import logging
from pydrex import logger; logger.CONSOLE_LOGGER.setLevel(logging.ERROR)
def run(L,regime,n=20,N=2,phase=MineralPhase.olivine,fabric=MineralFabric.olivine_A,M=125,chi=0.3):
    m=pydrex.Mineral(phase,fabric,regime,n_grains=n,seed=3)
    p=DefaultParams().as_dict(); p['gbs_threshold']=chi;p['gbm_mobility']=M
    F=np.eye(3)
    ts=np.linspace(0,1,N+1)
    for a,b in zip(ts[:-1],ts[1:]):
        F=m.update_orientations(p,F,lambda t,x:L,(a,b,lambda t:np.zeros(3)))
    return m,F
Z=np.zeros((3,3))
for regime in DeformationRegime:
    for name,L in (('zero',Z),('ss',np.array([[0,0,2.],[0,0,0],[0,0,0]]))):
        try:
            with warnings.catch_warnings():
                warnings.simplefilter('ignore')
                m,F=run(L,regime)
            print(regime.name,name,'nsnap',len(m.orientations),'dA',np.abs(m.orientations[-1]-m.orientations[0]).max(),'df',np.abs(m.fractions[-1]-m.fractions[0]).max(),'nan',np.isnan(m.orientations[-1]).any(),'F',F.ravel()[:3])
        except Exception as e:
            print(regime.name,name,'EXC',type(e).__name__,str(e)[:80])
# invalid ordinals
for bad in (8,-1,99):
    try:
        m,F=run(np.array([[0,0,2.],[0,0,0],[0,0,0]]),bad); print('regime',bad,'no error',len(m.orientations))
    except Exception as e: print('regime',bad,type(e).__name__,str(e)[:80])
for ph,fb in ((MineralPhase.olivine,MineralFabric.enstatite_AB),(MineralPhase.enstatite,MineralFabric.olivine_A),(2,0),(0,6),(0,-1)):
    try:
        m=pydrex.Mineral(ph,fb,DeformationRegime.matrix_dislocation,n_grains=10,seed=1)
        p=DefaultParams().as_dict(); p['phase_assemblage']=(ph,)
        F=m.update_orientations(p,np.eye(3),lambda t,x:np.array([[0,0,2.],[0,0,0],[0,0,0]]),(0,1,lambda t:np.zeros(3)))
        print(ph,fb,'no error',len(m.orientations))
    except Exception as e: print(ph,fb,type(e).__name__,str(e)[:80], 'nsnap',len(m.orientations))
# M*=0
m,F=run(np.array([[0,0,2.],[0,0,0],[0,0,0]]),DeformationRegime.matrix_dislocation,M=0,chi=0)
print('M0 chi0 df',np.abs(m.fractions[-1]-m.fractions[0]).max())
m,F=run(np.array([[0,0,2.],[0,0,0],[0,0,0]]),DeformationRegime.matrix_dislocation,M=0,chi=0.3)
print('M0 chi.3 df',np.abs(m.fractions[-1]-m.fractions[0]).max())
