import numpy as np, pydrex
from pydrex import core
from pydrex.core import *
from scipy.spatial.transform import Rotation
rng=np.random.default_rng(2)
combos=[(MineralPhase.olivine,f) for f in list(MineralFabric)[:5]]+[(MineralPhase.enstatite,MineralFabric.enstatite_AB)]
S=[np.diag(d) for d in ([1,-1,-1],[-1,1,-1],[-1,-1,1])]
for regime in (DeformationRegime.matrix_dislocation,DeformationRegime.frictional_yielding):
 for ph,fb in combos:
  w1=w2=w3=w4=0
  for trial in range(300):
    N=int(rng.integers(1,20))
    A=Rotation.random(N,random_state=int(rng.integers(1<<30))).as_matrix()
    f=rng.dirichlet(np.ones(N))
    L=rng.normal(size=(3,3)); D=(L+L.T)/2; s=np.abs(np.linalg.eigvalsh(D)).max(); L/=s; D/=s
    args=(1.5,3.5,5.0,125.0,0.7)
    Z=np.zeros((3,3))
    o,fr=core.derivatives(regime,ph,fb,N,A,f,D,L,Z,*args)
    Q=Rotation.random(random_state=int(rng.integers(1<<30))).as_matrix()
    A2=A@Q.T; L2=Q@L@Q.T; D2=(L2+L2.T)/2
    o2,fr2=core.derivatives(regime,ph,fb,N,np.ascontiguousarray(A2),f,D2,L2,Z,*args)
    w1=max(w1,np.abs(o2-o@Q.T).max()); w2=max(w2,np.abs(fr2-fr).max()/max(1,np.abs(fr).max()))
    A3=A.copy(); Ss=[]
    for g in range(N):
        Sg=S[rng.integers(3)] if rng.random()<0.7 else np.eye(3); Ss.append(Sg); A3[g]=Sg@A[g]
    o3,fr3=core.derivatives(regime,ph,fb,N,A3,f,D,L,Z,*args)
    w3=max(w3,max(np.abs(o3[g]-Ss[g]@o[g]).max() for g in range(N))); w4=max(w4,np.abs(fr3-fr).max()/max(1,np.abs(fr).max()))
  print(regime.name,fb.name,'frame dA',w1,'frame df',w2,'sym dA',w3,'sym df',w4)
