import numpy as np, pydrex
from pydrex import core
from pydrex.core import *
from scipy.spatial.transform import Rotation
from refmodel import ref_rates
rng=np.random.default_rng(1)
combos=[('olivine',f) for f in 'ABCDE']+[('enstatite','AB')]
for ph,fb in combos:
  worstA=0;worstF=0;worstF3=0
  for trial in range(200):
    N=int(rng.integers(1,30))
    A=Rotation.random(N,random_state=int(rng.integers(1<<30))).as_matrix()
    f=rng.dirichlet(np.ones(N)*rng.choice([0.1,1,10]))
    L=rng.normal(size=(3,3)); 
    if rng.random()<0.5: L-=np.eye(3)*np.trace(L)/3
    D=(L+L.T)/2; s=np.abs(np.linalg.eigvalsh(D)).max(); L/=s; D/=s
    p=rng.uniform(1,2);n=rng.uniform(2,5);lam=rng.uniform(0,10);M=rng.uniform(0,200);phi=rng.uniform(0.01,1)
    phase=getattr(MineralPhase,ph); fabric=getattr(MineralFabric,('olivine_' if ph=='olivine' else 'enstatite_')+fb)
    o,fr=core.derivatives(DeformationRegime.matrix_dislocation,phase,fabric,N,A,f,D,L,np.zeros((3,3)),p,n,lam,M,phi)
    ro,rf,info=ref_rates(ph,fb,A,f,L,p,n,lam,M,phi)
    _,rf3,_=ref_rates(ph,fb,A,f,L,p,n,lam,M,phi,energy_systems='first3')
    worstA=max(worstA,np.abs(o-ro).max()); 
    sc=max(1,np.abs(rf).max())
    worstF=max(worstF,np.abs(fr-rf).max()/sc); worstF3=max(worstF3,np.abs(fr-rf3).max()/sc)
  print(ph,fb,'max|dA-ref|',worstA,'max rel|df-ref(active)|',worstF,'vs first3',worstF3)
