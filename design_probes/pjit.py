import numpy as np, time, sys, os
import pydrex
from pydrex import core
from pydrex.core import *
from scipy.spatial.transform import Rotation
sys.excepthook=sys.__excepthook__
rng=np.random.default_rng(1)
N=40; A=Rotation.random(N,random_state=1).as_matrix(); f=rng.dirichlet(np.ones(N)); L=rng.normal(size=(3,3)); D=(L+L.T)/2
t=time.time()
for fb in list(MineralFabric)[:5]:
    o,fr=core.derivatives(DeformationRegime.matrix_dislocation,MineralPhase.olivine,fb,N,A,f,D,L,np.zeros((3,3)),1.5,3.5,5.0,125.0,1.0)
o2,fr2=core.derivatives(DeformationRegime.matrix_dislocation,MineralPhase.enstatite,MineralFabric.enstatite_AB,N,A,f,D,L,np.zeros((3,3)),1.5,3.5,5.0,125.0,1.0)
print(os.environ.get('NUMBA_DISABLE_JIT'),os.environ.get('NUMBA_BOUNDSCHECK'),'time',time.time()-t, o.sum(), fr.sum(), o2.sum())
np.save('out_%s.npy'%os.environ.get('NUMBA_DISABLE_JIT','0'),np.concatenate([o.ravel(),fr,o2.ravel()]))
