import numpy as np, pydrex, tempfile, os, math, cmath, traceback
from pydrex import io, exceptions as err
import logging
from pydrex import logger; logger.CONSOLE_LOGGER.setLevel(logging.CRITICAL)
d=tempfile.mkdtemp(); f=os.path.join(d,'t.scsv')
def eq(a,b):
    if isinstance(a,float) and isinstance(b,float): return (math.isnan(a) and math.isnan(b)) or a==b
    if isinstance(a,complex) and isinstance(b,complex): return eq(a.real,b.real) and eq(a.imag,b.imag)
    return type(a)==type(b) and a==b
def rt(schema,data,label):
    try:
        io.save_scsv(f,schema,data)
        out=io.read_scsv(f)
    except Exception as e:
        print(label,'EXC',type(e).__name__,str(getattr(e,'message',e))[:80]); return
    exp=[]
    for fld,col in zip(schema['fields'],data):
        t=io.SCSV_TYPEMAP[fld.get('type','string')]
        exp.append(tuple(col))
    ok=all(len(a)==len(b) and all(eq(x,y) for x,y in zip(a,b)) for a,b in zip(out,exp)) and out._fields==tuple(x['name'] for x in schema['fields'])
    print(label,'OK' if ok else 'MISMATCH got %r'%(tuple(out),))
S=lambda fields,delim=',',missing='-':{'delimiter':delim,'missing':missing,'fields':fields}
rt(S([{'name':'a','type':'string','fill':''}]),[['x','','y']],'str empty fill')
rt(S([{'name':'a','type':'string'}]),[['x','','y']],'str no fill')
rt(S([{'name':'a','type':'string','fill':'null'}]),[['x','null','y']],'fill null')
rt(S([{'name':'a','type':'string','fill':'yes'}]),[['x','yes','y']],'fill yes')
rt(S([{'name':'a','type':'string','fill':'1.50'}]),[['x','1.50','y']],'fill 1.50')
rt(S([{'name':'a','type':'string','fill':'a: b'}]),[['x','a: b','y']],'fill a: b')
rt(S([{'name':'a','type':'string','fill':'#'}]),[['x','#','y']],'fill #')
rt(S([{'name':'a','type':'string','fill':'N/A'}]),[['---','q']],'cell ---')
rt(S([{'name':'a','type':'string','fill':'N/A'},{'name':'b','type':'integer','fill':0}]),[['---','q'],[1,2]],'cell --- 2col')
rt(S([{'name':'a','type':'string','fill':'N/A'}],missing="'"),[['x','y']],"missing '")
rt(S([{'name':'a','type':'string','fill':'N/A'}],delim="'"),[['x','y']],"delim '")
rt(S([{'name':'a','type':'string','fill':'N/A'}],missing=""),[['x','y']],"missing empty")
rt(S([{'name':'a','type':'float','fill':'NaN'},{'name':'b','type':'string','fill':'z'}],delim=" "),[[1.0,2.0],['','y']],"delim space, empty cell")
rt(S([{'name':'a','type':'float','fill':'NaN'},{'name':'b','type':'string','fill':'z'}],delim="\t"),[[1.0,2.0],['','y']],"delim tab, empty cell")
rt(S([{'name':'a','type':'float','fill':float('nan')}]),[[1.5,float('nan'),float('inf'),-float('inf'),-0.0,1e-320,1.7976931348623157e308]],'float nan fill')
rt(S([{'name':'a','type':'float','fill':0.0}]),[[1.5,float('nan'),float('inf'),0.0]],'float 0 fill')
rt(S([{'name':'a','type':'float','fill':float('inf')}]),[[1.5,float('nan'),float('inf'),0.0]],'float inf fill')
rt(S([{'name':'a','type':'integer','fill':-1}]),[[10**30,-1,0,-5]],'int')
rt(S([{'name':'a','type':'boolean'}]),[[True,False,True]],'bool nofill')
rt(S([{'name':'a','type':'boolean','fill':False}]),[[True,False,True]],'bool fill False')
rt(S([{'name':'a','type':'complex','fill':'NaN'}]),[[1+2j,complex('nan'),complex(0,float('inf')),complex(float('nan'),1.0),-0j]],'complex')
rt(S([{'name':'a','type':'complex','fill':1+1j}]),[[1+2j,1+1j]],'complex fill 1+1j')
rt(S([{'name':'a','type':'string','fill':'q'}]),[['he said "hi"','a,b','x\ty',"it's",'é✓','#c','- a','[1]','{a}','a  b']],'strings special')
rt(S([{'name':'a','type':'string','fill':'q'},{'name':'b','type':'string','fill':'q'}]),[['','x'],['','']],'empty strings 2 col')
rt(S([{'name':'a','type':'string','fill':'q'}]),[['','x','']],'empty strings 1 col')
rt(S([{'name':'a','type':'string','fill':'q','unit':'m: s # x'}]),[['','x','']],'unit special')
rt(S([{'name':'a','type':'float','fill':'NaN'}],delim='.'),[[1.5,2.25]],'delim .')
rt(S([{'name':'a','type':'float','fill':'NaN'},{'name':'b','type':'integer','fill':'7'}],delim='-',missing='?'),[[-1.5,2.25],[-3,4]],'delim -')
rt(S([{'name':'a','type':'float','fill':'NaN'},{'name':'b','type':'integer','fill':'7'}],delim='#',missing='?'),[[-1.5,2.25],[-3,4]],'delim #')
