import numpy as np, pydrex
from pydrex import tensors as T, minerals as mn, diagnostics as dg
from scipy.spatial.transform import Rotation
rng=np.random.default_rng(0)
def rotC(C,R): return T.elastic_tensor_to_voigt(T.rotate(T.voigt_to_elastic_tensor(C),R))
def randortho():
    while True:
        C=np.zeros((6,6)); d=rng.uniform(100,400,3); C[0,0],C[1,1],C[2,2]=d
        C[0,1]=C[1,0]=rng.uniform(30,90);C[0,2]=C[2,0]=rng.uniform(30,90);C[1,2]=C[2,1]=rng.uniform(30,90)
        C[3,3],C[4,4],C[5,5]=rng.uniform(40,120,3)
        if np.linalg.eigvalsh(C).min()>0: return C
S=mn.StiffnessTensors()
keys=['bulk_modulus','shear_modulus','percent_anisotropy','percent_hexagonal','percent_tetragonal','percent_orthorhombic','percent_monoclinic','percent_triclinic']
worst={k:0 for k in keys}; worst['axis']=0; worstpyth=0; wmono=0
cases=[('ol',S.olivine),('en',S.enstatite)]+[('rnd%d'%i,randortho()) for i in range(20)]
for nm,C in cases:
    base=dg.elasticity_components(np.array([C]))
    for r in range(15):
        R=Rotation.random(random_state=int(rng.integers(1<<30))).as_matrix()
        out=dg.elasticity_components(np.array([rotC(C,R)]))
        for k in keys:
            d=abs(out[k][0]-base[k][0]); 
            if d>worst[k]: worst[k]=d; 
            if d>1e-6 and k.startswith('percent'): print(nm,r,k,base[k][0],out[k][0])
        ax0=base['hexagonal_axis'][0]; ax=out['hexagonal_axis'][0]
        da=1-abs(np.dot(R@ax0,ax)); worst['axis']=max(worst['axis'],da)
        if da>1e-6: print(nm,r,'axis',R@ax0,ax,abs(np.linalg.norm(ax)-1))
        s=sum(out[k][0]**2 for k in keys[3:]); worstpyth=max(worstpyth,abs(s-out['percent_anisotropy'][0]**2))
        wmono=max(wmono,out['percent_monoclinic'][0],out['percent_triclinic'][0])
print(worst,'pyth',worstpyth,'mono/tric',wmono)
