import os,sys
os.environ['NUMBA_DISABLE_JIT']='1'
import numpy as np, pydrex
from pydrex import core
from pydrex.core import *
from scipy.spatial.transform import Rotation
sys.excepthook=sys.__excepthook__
TOOL=sys.monitoring.COVERAGE_ID
sys.monitoring.use_tool_id(TOOL,'pvmon')
hit=set()
def on_line(code,line):
    if code.co_filename.endswith('pydrex/core.py'): hit.add(line)
    return sys.monitoring.DISABLE
sys.monitoring.register_callback(TOOL,sys.monitoring.events.LINE,on_line)
sys.monitoring.set_events(TOOL,sys.monitoring.events.LINE)
A=Rotation.random(10,random_state=1).as_matrix(); f=np.full(10,.1); L=np.random.default_rng(0).normal(size=(3,3)); D=(L+L.T)/2
for fb in list(MineralFabric)[:5]: core.derivatives(4,0,fb,10,A,f,D,L,np.zeros((3,3)),1.5,3.5,5.0,125.0,1.0)
core.derivatives(6,1,5,10,A,f,D,L,np.zeros((3,3)),1.5,3.5,5.0,125.0,1.0)
sys.monitoring.set_events(TOOL,0)
rng=lambda a,b:[l for l in range(a,b+1)]
for a,b in ((386,474),(533,538),(717,722),(315,342)):
    print((a,b),'hit',sorted(set(rng(a,b))&hit))
