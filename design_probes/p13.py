import numpy as np, pydrex, tempfile, os
from pydrex import diagnostics as D, utils as U, stats as S, geometry as G
from scipy.spatial.transform import Rotation
import logging
from pydrex import logger; logger.CONSOLE_LOGGER.setLevel(logging.CRITICAL)
for g in (0.1,1,2,5):
    F=np.eye(3);F[1,0]=g
    s,v=D.finite_strain(F); ang=np.rad2deg(np.arctan2(v[1],v[0]))%180
    F2=np.eye(3);F2[0,1]=g; s2,v2=D.finite_strain(F2); ang2=np.rad2deg(np.arctan2(v2[1],v2[0]))%180
    print(g,'dv/dx',ang,'du/dy',ang2,'helper(g/2)',U.angle_fse_simpleshear(g/2),'helper(g)',U.angle_fse_simpleshear(g))
# resample malformed
rng=np.random.default_rng(0)
for osh,fsh in (((2,5,3,3),(2,5)),((2,5,4,4),(2,5)),((2,5,2,3),(2,5)),((2,5,1,3),(2,5)),((2,5,1,1),(2,5)),((2,5,3,1),(2,5)),((2,5,3,2),(2,5)),((2,5,3,3),(2,4)),((3,5,3,3),(2,5)),((5,3,3),(5,)),((2,5,3,3),(2,5,1)),((2,5,9),(2,5))):
    try:
        o,f=S.resample_orientations(rng.normal(size=osh),np.full(fsh,1/5)); print(osh,fsh,'accepted',o.shape,f.shape)
    except Exception as e: print(osh,fsh,type(e).__name__,str(e)[:60])
# theory integrates to 1
for sysm in G.LatticeSystem:
    th=S._max_misorientation(sysm)
    try:
        tot=sum(S.misorientations_random(i,i+1,sysm) for i in range(th)); print(sysm.name,th,'integral',tot)
    except Exception as e: print(sysm.name,type(e).__name__,e)
# mindex range for each system small
A=Rotation.random(60,random_state=3).as_matrix()
for sysm in G.LatticeSystem:
    try: print(sysm.name,'M uniform60',D.misorientation_index(A,sysm),'M single',D.misorientation_index(np.repeat(A[:1],10,0),sysm))
    except Exception as e: print(sysm.name,type(e).__name__,e)
