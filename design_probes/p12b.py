import numpy as np, pydrex, sys
from pydrex import tensors as T, minerals as mn, diagnostics as dg, MineralPhase as P
from scipy.spatial.transform import Rotation
import logging
from pydrex import logger; logger.CONSOLE_LOGGER.setLevel(logging.CRITICAL); sys.excepthook=sys.__excepthook__
rng=np.random.default_rng(0)
keys=['bulk_modulus','shear_modulus','percent_anisotropy','percent_hexagonal','percent_tetragonal','percent_orthorhombic','percent_monoclinic','percent_triclinic']
def tex(kind,n):
    if kind=='random': return Rotation.random(n,random_state=int(rng.integers(1<<30))).as_matrix()
    if kind=='cluster': return (Rotation.from_rotvec(rng.normal(scale=0.3,size=(n,3)))*Rotation.random(random_state=int(rng.integers(1<<30)))).as_matrix()
    return (Rotation.from_euler('y',rng.uniform(0,2*np.pi,(n,1)))*Rotation.from_rotvec(rng.normal(scale=0.1,size=(n,3)))*Rotation.random(random_state=int(rng.integers(1<<30)))).as_matrix()
bad=0;tot=0;skipped=0;worst=0
for case in range(120):
    kind=rng.choice(['random','cluster','girdle']); n=int(rng.choice([5,30,300]))
    A=tex(kind,n); f=rng.dirichlet(np.ones(n))
    m=pydrex.Mineral(n_grains=n,orientations_init=A,fractions_init=f)
    C=mn.voigt_averages([m],[P.olivine],[1.0])[0]
    d,v=T.voigt_decompose(C); gd=np.diff(np.linalg.eigvalsh(d)).min()/np.linalg.norm(d); gv=np.diff(np.linalg.eigvalsh(v)).min()/np.linalg.norm(v)
    base=dg.elasticity_components(np.array([C]))
    Q=Rotation.random(random_state=int(rng.integers(1<<30))).as_matrix()
    m2=pydrex.Mineral(n_grains=n,orientations_init=A@Q.T,fractions_init=f)
    C2=mn.voigt_averages([m2],[P.olivine],[1.0])[0]
    out=dg.elasticity_components(np.array([C2]))
    dmax=max(abs(out[k][0]-base[k][0]) for k in keys); dax=1-abs(np.dot(Q@base['hexagonal_axis'][0],out['hexagonal_axis'][0]))
    tot+=1
    if min(gd,gv)<1e-3: skipped+=1; tag='SKIP'
    else: tag=''
    if (dmax>1e-6 or dax>1e-6):
        bad+= (tag==''); print(case,kind,n,'gaps %.1e %.1e'%(gd,gv),'dmax %.2e dax %.2e'%(dmax,dax),tag, {k:(round(base[k][0],4),round(out[k][0],4)) for k in keys[3:]})
    elif tag=='': worst=max(worst,dmax,dax)
print('total',tot,'skipped',skipped,'bad(conditioned)',bad,'worst ok',worst)
