import numpy as np, itertools as it, sys
from scipy.spatial.transform import Rotation
import pydrex
from pydrex import geometry as geo, stats, diagnostics as dg
from numpy import random as rn
seed=8816
def fixed_mindex(orientations, system, proper_only=True):
    # reference: correct quaternion algebra via scipy
    ops = geo.symmetry_operations(system)
    ops = [o for o in ops if np.shape(o)==(4,)]
    S = Rotation.from_quat(np.array(ops))
    R = Rotation.from_matrix(orientations)
    n=len(orientations)
    iu=np.triu_indices(n,1)
    # misorientation: min over s of angle(R_i * s * R_j^-1)?  orientations passive: A rows = crystal axes. equivalent: S A.
    # mis = A1 A2^T ; equivalents S1 A1 A2^T S2^T -> min over S (group) of angle(S * A1 A2^T) if group closed
    ang=np.full(len(iu[0]),np.inf)
    M=R[iu[0]]*R[iu[1]].inv()
    for s1 in S:
      for s2 in S:
        a=(s1*M*s2).magnitude()
        ang=np.minimum(ang,a)
    ang=np.rad2deg(ang)
    th=stats._max_misorientation(system)
    cnt,edges=np.histogram(ang,bins=th,range=(0,th),density=True)
    theory=np.array([stats.misorientations_random(edges[i],edges[i+1],system) for i in range(len(cnt))])
    return (th/(2*len(cnt)))*np.sum(np.abs(theory-cnt)), ang.max()
def textures(n=1000):
    T={}
    T['uniform']=Rotation.random(n, random_state=seed).as_matrix()
    T['spread10X']=Rotation.from_rotvec(np.stack([[0, x*np.pi/18-np.pi/36, x*np.pi/18-np.pi/36] for x in rn.default_rng(seed=seed).random(n)])).inv().as_matrix()
    T['spread45X']=Rotation.from_rotvec(np.stack([[0, x*np.pi/2-np.pi/4, x*np.pi/2-np.pi/4] for x in rn.default_rng(seed=seed).random(n)])).as_matrix()
    rng=rn.default_rng(seed=seed);a=np.zeros(n);b=np.zeros(n);c=rng.normal(0,1.0,size=n);d=rng.normal(0,1.0,size=n)
    T['girdle']=Rotation.from_quat(np.column_stack([a,b,c,d])).as_matrix()
    for f in (2,3,4,5):
        T['inc%d'%f]=Rotation.from_rotvec(np.stack([[0,x*np.pi/f-np.pi/f/2,x*np.pi/f-np.pi/f/2] for x in rn.default_rng(seed=seed).random(n)])).as_matrix()
    return T
n=int(sys.argv[1]) if len(sys.argv)>1 else 300
sysm=geo.LatticeSystem.orthorhombic
Q=Rotation.random(random_state=5).as_matrix()
for k,A in textures(n).items():
    cur=dg.misorientation_index(A,sysm)
    cur_rot=dg.misorientation_index(A@Q.T,sysm)
    fx,amax=fixed_mindex(A,sysm)
    fxr,_=fixed_mindex(A@Q.T,sysm)
    print(k,'current',round(cur,4),'current rotated',round(cur_rot,4),'fixed',round(fx,4),'fixed rot',round(fxr,4),'maxang',amax)
