import numpy as np, pydrex, sys, warnings
from pydrex.core import *
from scipy.spatial.transform import Rotation
import logging
from pydrex import logger; logger.CONSOLE_LOGGER.setLevel(logging.CRITICAL); sys.excepthook=sys.__excepthook__
rng=np.random.default_rng(3)
combos=[(MineralPhase.olivine,f) for f in list(MineralFabric)[:5]]+[(MineralPhase.enstatite,MineralFabric.enstatite_AB)]
def run(ph,fb,A0,f0,L,N,T,p,F0):
    m=pydrex.Mineral(ph,fb,DeformationRegime.matrix_dislocation,n_grains=len(A0),fractions_init=f0.copy(),orientations_init=A0.copy())
    F=F0.copy(); ts=np.linspace(0,T,N+1)
    for a,b in zip(ts[:-1],ts[1:]): F=m.update_orientations(p,F,lambda t,x:L,(a,b,lambda t:np.zeros(3)))
    return m,F
S=[np.diag(d) for d in ([1,-1,-1],[-1,1,-1],[-1,-1,1],[1,1,1])]
for case in range(24):
    ph,fb=combos[case%6]; n=30; A0=Rotation.random(n,random_state=case).as_matrix(); f0=rng.dirichlet(np.ones(n)*2)
    L=rng.normal(size=(3,3)); L/=np.abs(np.linalg.eigvalsh((L+L.T)/2)).max(); N=int(rng.choice([1,4,10])); T=float(rng.choice([0.5,2.0]))
    p=DefaultParams().as_dict(); p['phase_assemblage']=(ph,); p['gbs_threshold']=float(rng.choice([0,0.3]))
    F0=np.eye(3)+0.2*rng.normal(size=(3,3))
    with warnings.catch_warnings():
        warnings.simplefilter('ignore')
        m1,F1=run(ph,fb,A0,f0,L,N,T,p,F0)
        Q=Rotation.random(random_state=100+case).as_matrix()
        m2,F2=run(ph,fb,A0@Q.T,f0,Q@L@Q.T,N,T,p,Q@F0@Q.T)
        Ss=np.array([S[i] for i in rng.integers(4,size=n)])
        m3,F3=run(ph,fb,Ss@A0,f0,L,N,T,p,F0)
        m4,F4=run(ph,fb,A0,f0,L,N*2,T,p,F0)
    dA=max(np.abs(b-a@Q.T).max() for a,b in zip(m1.orientations,m2.orientations)); df=max(np.abs(b-a).max() for a,b in zip(m1.fractions,m2.fractions)); dF=np.abs(F2-Q@F1@Q.T).max()
    dA3=max(np.abs(b-Ss@a).max() for a,b in zip(m1.orientations,m3.orientations)); df3=max(np.abs(b-a).max() for a,b in zip(m1.fractions,m3.fractions))
    dA4=np.abs(m4.orientations[-1]-m1.orientations[-1]).max(); df4=np.abs(m4.fractions[-1]-m1.fractions[-1]).max()
    print(fb.name,N,T,p['gbs_threshold'],'frame dA %.1e df %.1e dF %.1e | sym dA %.1e df %.1e | split dA %.1e df %.1e dF %.1e'%(dA,df,dF,dA3,df3,dA4,df4,np.abs(F4-F1).max()))
