import numpy as np, pydrex, time, sys, warnings
from pydrex.core import *
from scipy.spatial.transform import Rotation
import logging
from pydrex import logger; logger.CONSOLE_LOGGER.setLevel(logging.CRITICAL); sys.excepthook=sys.__excepthook__
def orth_err(A): return np.abs(A@A.transpose(0,2,1)-np.eye(3)).max()
rng=np.random.default_rng(int(sys.argv[1]) if len(sys.argv)>1 else 0)
combos=[(MineralPhase.olivine,f) for f in list(MineralFabric)[:5]]+[(MineralPhase.enstatite,MineralFabric.enstatite_AB)]
worst=0
t0=time.time()
for case in range(60):
    ph,fb=combos[rng.integers(6)]; regime=rng.choice([DeformationRegime.matrix_dislocation,DeformationRegime.frictional_yielding])
    n=int(rng.choice([2,3,10,50,200])); N=int(rng.choice([1,3,10,40,100]))
    kind=rng.choice(['random','cluster','girdle','single'])
    if kind=='random': A0=Rotation.random(n,random_state=int(rng.integers(1<<30))).as_matrix()
    elif kind=='cluster': A0=(Rotation.from_rotvec(rng.normal(scale=0.05,size=(n,3)))*Rotation.random(random_state=int(rng.integers(1<<30)))).as_matrix()
    elif kind=='girdle': A0=(Rotation.from_euler('y',rng.uniform(0,2*np.pi,(n,1)))*Rotation.random(random_state=int(rng.integers(1<<30)))).as_matrix()
    else: A0=np.repeat(Rotation.random(random_state=int(rng.integers(1<<30))).as_matrix()[None],n,0)
    fk=rng.choice(['uniform','dirichlet','dominant','zeros'])
    if fk=='uniform': f0=np.full(n,1/n)
    elif fk=='dirichlet': f0=rng.dirichlet(np.ones(n)*0.3)
    elif fk=='dominant': f0=np.full(n,1e-6); f0[0]=1-1e-6*(n-1)
    else: f0=rng.dirichlet(np.ones(n)); f0[rng.random(n)<0.3]=0; f0=f0/f0.sum() if f0.sum()>0 else np.full(n,1/n)
    L=rng.normal(size=(3,3))
    mode=rng.choice(['ss','ps','gen','gentr','timedep'])
    if mode=='ss': L=np.zeros((3,3)); L[rng.integers(3),(rng.integers(1,3)+0)%3]=2; 
    if mode=='ps': L=np.diag([1.,0,-1])[rng.permutation(3)][:,rng.permutation(3)]; L=np.diag(np.diag(L)) if False else np.diag(rng.permutation([1.,0,-1]))
    if mode=='gen': L-=np.eye(3)*np.trace(L)/3
    D=(L+L.T)/2; rate=np.abs(np.linalg.eigvalsh(D)).max()
    strain=float(rng.choice([0.2,1,3])); T=strain/rate
    L1=rng.normal(size=(3,3))
    fn=(lambda t,x:L) if mode!='timedep' else (lambda t,x:L*np.cos(3*t/T)+L1*np.sin(2*t/T))
    p=DefaultParams().as_dict(); p['gbs_threshold']=float(rng.choice([0,0.3,0.9]));p['gbm_mobility']=float(rng.choice([0,10,125,200])); p['nucleation_efficiency']=float(rng.choice([0,5,50]))
    p['stress_exponent']=float(rng.uniform(1,2)); p['deformation_exponent']=float(rng.uniform(2,5))
    p['phase_assemblage']=(ph,);p['phase_fractions']=(1.0,)
    print("START",case,ph.name,fb.name,int(regime),n,N,kind,fk,mode,p["gbs_threshold"],p["gbm_mobility"],p["nucleation_efficiency"],flush=True)
    m=pydrex.Mineral(ph,fb,regime,n_grains=n,fractions_init=f0.copy(),orientations_init=A0.copy())
    F=np.eye(3); ts=np.linspace(0,T,N+1)
    try:
        with warnings.catch_warnings():
            warnings.simplefilter('ignore')
            for a,b in zip(ts[:-1],ts[1:]):
                F=m.update_orientations(p,F,fn,(a,b,lambda t:np.zeros(3)))
    except Exception as e:
        print(case,ph.name,fb.name,regime,n,N,kind,fk,mode,'EXC',type(e).__name__,str(getattr(e,'message',e))[:80]); continue
    errs=[orth_err(A) for A in m.orientations]; bound=5e-3+1e-3*(N+2*strain)
    fs=np.array([ (f.min(),abs(f.sum()-1)) for f in m.fractions])
    bad = max(errs)>bound or fs[:,0].min()<0 or fs[:,1].max()>1e-9 or not all(np.isfinite(A).all() for A in m.orientations) or min(np.linalg.det(A).min() for A in m.orientations)<=0
    print(case,ph.name,fb.name,regime,n,N,kind,fk,mode,'orth %.2e bound %.2e fmin %.2e'%(max(errs),bound,fs[:,0].min()),'BAD' if bad else '')
print('time',time.time()-t0)
