import numpy as np
from pydrex import tensors as T
rng=np.random.default_rng(0)
# polar
for name,M in (('rand',rng.normal(size=(3,3))),('rank1',np.array([[0,0,2.],[0,0,0],[0,0,0]])),('zero',np.zeros((3,3))),('illcond',np.diag([1,1e-8,1e-14])@rng.normal(size=(3,3))),('reflect',np.diag([1.,1,-1])@rng.normal(size=(3,3)))):
    for left in (True,False):
        try:
            R,S=T.polar_decompose(M,left)
            prod=(S@R) if left else (R@S)
            print(name,left,'orth',np.abs(R@R.T-np.eye(3)).max(),'sym',np.abs(S-S.T).max(),'psd',np.linalg.eigvalsh((S+S.T)/2).min(),'recon',np.abs(prod-M).max(),'detR',np.linalg.det(R))
        except Exception as e: print(name,left,type(e).__name__,e)
# projectors as matrices
def mat(f): return np.array([f(e) for e in np.eye(21)]).T
for nm in ('mono_project','ortho_project','tetr_project','hex_project'):
    P=mat(getattr(T,nm)); print(nm,'idem',np.abs(P@P-P).max(),'sym',np.abs(P-P.T).max(),'rank',np.linalg.matrix_rank(P))
Ps={nm:mat(getattr(T,nm)) for nm in ('mono_project','ortho_project','tetr_project','hex_project')}
print('nest', np.abs(Ps['mono_project']@Ps['ortho_project']-Ps['ortho_project']).max(), np.abs(Ps['ortho_project']@Ps['tetr_project']-Ps['tetr_project']).max(), np.abs(Ps['tetr_project']@Ps['hex_project']-Ps['hex_project']).max())
# voigt roundtrip on triclinic
C=rng.normal(size=(6,6)); C=C+C.T
t=T.voigt_to_elastic_tensor(C)
print('minor',np.abs(t-t.transpose(1,0,2,3)).max(),np.abs(t-t.transpose(0,1,3,2)).max(),'major',np.abs(t-t.transpose(2,3,0,1)).max())
print('back',np.abs(T.elastic_tensor_to_voigt(t)-C).max())
v=T.voigt_matrix_to_vector(C); print('vec back',np.abs(T.voigt_vector_to_matrix(v)-C).max(),'norm',np.linalg.norm(v)-np.linalg.norm(t))
d,dv=T.voigt_decompose(C); print('dilat',np.abs(d-np.einsum('ijkk->ij',t)).max(),'deviat',np.abs(dv-np.einsum('ijkj->ik',t)).max())
from scipy.spatial.transform import Rotation
R1=Rotation.random(random_state=1).as_matrix();R2=Rotation.random(random_state=2).as_matrix()
r=T.rotate(t,R1); print('law',np.abs(r-np.einsum('ia,jb,kc,ld,abcd->ijkl',R1,R1,R1,R1,t)).max(),'norm',np.linalg.norm(r)-np.linalg.norm(t),'compose',np.abs(T.rotate(r,R2)-T.rotate(t,R2@R1)).max())
M=rng.normal(size=(3,3)); ev=np.linalg.eigvals(M); I=T.invariants_second_order(M)
print('inv',I[0]-ev.sum().real,I[1]-(ev[0]*ev[1]+ev[1]*ev[2]+ev[0]*ev[2]).real,I[2]-np.prod(ev).real)
