import numpy as np, pydrex
from pydrex import geometry as G, stats as S
from scipy.spatial.transform import Rotation
rng=np.random.default_rng(0)
x,y,z=rng.normal(size=(3,8)); 
r,ph,th=G.to_spherical(x,y,z); xx,yy,zz=G.to_cartesian(ph,th,r); print('roundtrip err',np.abs(xx-x).max(),np.abs(yy-y).max(),np.abs(zz-z).max())
print(G.to_spherical(0,0,1),G.to_spherical(1,0,0),G.to_spherical(0,1,0))
A=Rotation.random(5,random_state=1).as_matrix()
for ref in ('xz','yz','xy','zx','zy','yx'):
    for hkl in ([1,0,0],[0,1,0],[0,0,1],[1,1,0]):
        xv,yv,zv=G.poles(A,ref,hkl)
        d=np.einsum('nji,j->ni',A,np.array(hkl,float)); d/=np.linalg.norm(d,axis=1)[:,None]
        m={'x':0,'y':1,'z':2}; up=(set('xyz')-set(ref)).pop()
        print(ref,hkl,np.abs(xv-d[:,m[ref[0]]]).max(),np.abs(yv-d[:,m[ref[1]]]).max(),np.abs(zv-d[:,m[up]]).max(), end=' | ')
    print()
v=rng.normal(size=(200,3)); v/=np.linalg.norm(v,axis=1)[:,None]
v=np.vstack([v,[[0,0,1],[0,0,-1],[1,0,0],[0,-1,0]]])
X,Y=G.lambert_equal_area(*v.T)
print('lambert r2 err',np.abs(X**2+Y**2-(1-np.abs(v[:,2]))).max(),'az err',np.abs(np.arctan2(Y,X)-np.arctan2(v[:,1],v[:,0]))[:-4][ (np.hypot(v[:-4,0],v[:-4,1])>1e-8)].max(), 'nan',np.isnan(X).any())
for kern in S.SPHERICAL_COUNTING_KERNELS:
    for n in (1,5,300):
        d=rng.normal(size=(n,3)); d/=np.linalg.norm(d,axis=1)[:,None]
        try:
            Xg,Yg,Z=S.point_density(*d.T,gridsteps=31,kernel=kern)
            perm=rng.permutation(n); Xp,Yp,Zp=S.point_density(*d[perm].T,gridsteps=31,kernel=kern)
            sg=rng.choice([-1,1],size=n)[:,None]; Xs,Ys,Zs=S.point_density(*(d*sg).T,gridsteps=31,kernel=kern)
            print(kern,n,'finite',np.isfinite(Z).all(),'min',Z.min(),'mean',Z.mean(),'disk',(Xg**2+Yg**2).max(),'perm',np.abs(Z-Zp).max(),'sign',np.abs(Z-Zs).max())
        except Exception as e: print(kern,n,type(e).__name__,e)
