import numpy as np, pydrex, sys, warnings
from pydrex.core import *
import logging
from pydrex import logger; logger.CONSOLE_LOGGER.setLevel(logging.CRITICAL); sys.excepthook=sys.__excepthook__
sys.path.insert(0,'/tmp/probe/deps')
import icontract, hashlib
class Broken(Exception): pass
def snap(self): return (len(self.orientations),len(self.fractions),[hashlib.sha1(a.tobytes()).hexdigest() for a in self.orientations],[id(a) for a in self.orientations])
def one_more(self, OLD, result):
    n,m,h,ids=OLD.s
    return len(self.orientations)==n+1 and len(self.fractions)==m+1 and [hashlib.sha1(a.tobytes()).hexdigest() for a in self.orientations[:n]]==h and [id(a) for a in self.orientations[:n]]==ids
orig=pydrex.minerals.Mineral.update_orientations
pydrex.minerals.Mineral.update_orientations=icontract.snapshot(snap,name="s")(icontract.ensure(one_more,error=Broken)(orig))
L=np.array([[0,0,2.],[0,0,0],[0,0,0]])
m=pydrex.Mineral(n_grains=20,seed=1); p=DefaultParams().as_dict()
F=m.update_orientations(p,np.eye(3),lambda t,x:L,(0,1,lambda t:np.zeros(3))); print('contract ok, snapshots',len(m.orientations))
calls=[0]
def Lfail(t,x):
    calls[0]+=1
    if calls[0]>12: raise RuntimeError('failpoint')
    return L
before=snap(m)
try: m.update_orientations(p,F,Lfail,(1,2,lambda t:np.zeros(3)))
except Exception as e: print('failpoint ->',type(e).__name__,e,'history untouched',snap(m)==before)
def reg(t,x): return DeformationRegime.matrix_dislocation if t<2.5 else DeformationRegime.sliding_dislocation
try: m.update_orientations(p,F,lambda t,x:L,(2,3,lambda t:np.zeros(3)),get_regime=reg)
except Exception as e: print('regime switch ->',type(e).__name__,str(e)[:50],'history untouched',snap(m)==before, 'regime now',m.regime)
