import numpy as np, sys, time
from scipy.spatial.transform import Rotation
import pydrex
from pydrex import geometry as geo, stats, diagnostics as dg
sys.excepthook=sys.__excepthook__
def ops_for(system):
    I=np.array([0,0,0,1.0])
    def rv(axis,ang): return Rotation.from_rotvec(ang*np.asarray(axis,float)).as_quat()
    ax=[[0,0,1],[0,1,0],[1,0,0]]
    n=system.name
    if n=='triclinic': return [I]
    if n in('monoclinic','orthorhombic'): return [I]+[rv(a,np.pi) for a in ax]+[np.diag(x).astype(float) for x in ([1,-1,-1,1],[1,-1,1,-1],[1,1,-1,-1])]
    if n=='rhombohedral': return [I]+[rv(a,i*np.pi/3) for a in ax for i in (1,2)]
    if n=='tetragonal': return [I]+[rv(a,i*np.pi/2) for a in ax for i in (1,2,3)]
    if n=='hexagonal': return [I]+[rv(a,i*np.pi/3) for a in ax for i in (1,2)]+[rv(a,i*np.pi/6) for a in ax for i in (1,3,5)]
def defect_model_M(A,system,thmax):
    q=Rotation.from_matrix(A).as_quat()
    ops=ops_for(system)
    # apply each op to every quaternion with the defective product
    Q=np.empty((len(ops),len(q),4),dtype=np.float32)
    for k,o in enumerate(ops):
        if o.shape==(4,4): Q[k]=(q@o.T).astype(np.float32)
        else:
            v=o[3]*q[:,:3]+q[:,3:4]*o[:3]  # cross term dropped
            w=o[3]*q[:,3]-q[:,:3]@o[:3]
            Q[k]=np.column_stack([v,w]).astype(np.float32)
    iu=np.triu_indices(len(q),1)
    best=np.full(len(iu[0]),np.inf)
    for a in range(len(ops)):
        for b in range(len(ops)):
            d=np.sum(Q[a][iu[0]]*Q[b][iu[1]],axis=1)
            ang=2*np.rad2deg(np.arccos(np.abs(np.clip(d,-1.0,1.0))))
            best=np.minimum(best,ang)
    cnt,edges=np.histogram(best,bins=thmax,range=(0,thmax),density=True)
    theory=np.array([stats.misorientations_random(edges[i],edges[i+1],system) for i in range(len(cnt))])
    return (thmax/(2*len(cnt)))*np.sum(np.abs(theory-cnt))
for system in (geo.LatticeSystem.triclinic,geo.LatticeSystem.monoclinic,geo.LatticeSystem.orthorhombic,geo.LatticeSystem.tetragonal,geo.LatticeSystem.hexagonal):
    th=stats._max_misorientation(system)
    for seed,n,kind in ((1,80,'rand'),(2,150,'rand'),(3,100,'clu'),(4,2,'rand'),(5,3,'rand')):
        A=Rotation.random(n,random_state=seed).as_matrix() if kind=='rand' else (Rotation.from_rotvec(np.random.default_rng(seed).normal(scale=0.3,size=(n,3)))*Rotation.random(random_state=seed)).as_matrix()
        with np.errstate(all='ignore'):
            t=time.time(); real=dg.misorientation_index(A,system); t1=time.time()-t
            t=time.time(); mod=defect_model_M(A,system,th); t2=time.time()-t
        print(system.name,n,kind,'real',real,'model',mod,'diff',abs(real-mod) if np.isfinite(real) else (np.isnan(real) and np.isnan(mod)),'t %.2f %.2f'%(t1,t2))
