import numpy as np, pydrex, time, sys
from pydrex import core
from pydrex.core import *
from scipy.spatial.transform import Rotation
import warnings
def orth_err(A): return np.abs(A@A.transpose(0,2,1)-np.eye(3)).max()
def run(phase,fabric,regime,L,n=50,N=5,T=1.0,seed=1,chi=0.3,M=125,F0=None):
    m=pydrex.Mineral(phase,fabric,regime,n_grains=n,seed=seed)
    p=DefaultParams().as_dict(); p['gbs_threshold']=chi;p['gbm_mobility']=M
    p['phase_assemblage']=(phase,);p['phase_fractions']=(1.0,)
    F=np.eye(3) if F0 is None else F0
    ts=np.linspace(0,T,N+1)
    for a,b in zip(ts[:-1],ts[1:]):
        F=m.update_orientations(p,F,lambda t,x:L,(a,b,lambda t:np.zeros(3)))
    return m,F
rng=np.random.default_rng(0)
Ls={'ss':np.array([[0,0,2.],[0,0,0],[0,0,0]]),'ps':np.diag([1.,0,-1]),'ax':np.diag([1.,-.5,-.5])}
G=rng.normal(size=(3,3));G-=np.eye(3)*np.trace(G)/3;Ls['gen']=G
G2=rng.normal(size=(3,3));Ls['gentr']=G2
combos=[(MineralPhase.olivine,f) for f in list(MineralFabric)[:5]]+[(MineralPhase.enstatite,MineralFabric.enstatite_AB)]
for regime in [DeformationRegime.matrix_dislocation,DeformationRegime.frictional_yielding,DeformationRegime.matrix_diffusion,DeformationRegime.min_viscosity,DeformationRegime.max_viscosity]:
  for ph,fab in combos:
    for name,L in Ls.items():
      t=time.time()
      try:
        m,F=run(ph,fab,regime,L)
        fr=m.fractions[-1];A=m.orientations[-1]
        print(regime.name,fab.name,name,'sum',fr.sum(),'min',fr.min(),'orth',orth_err(A),'det',np.linalg.det(A).min(), 'finite',np.isfinite(A).all(), 'absmax',np.abs(A).max(),'%.1fs'%(time.time()-t))
      except Exception as e:
        print(regime.name,fab.name,name,'EXC',type(e).__name__,str(e)[:100])
    if regime.value in (0,7,1) : break
