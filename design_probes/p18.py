import numpy as np, pydrex, warnings, collections
from pydrex import velocity as V, pathlines as P, utils as U
import logging
from pydrex import logger; logger.CONSOLE_LOGGER.setLevel(logging.ERROR)
rng=np.random.default_rng(0)
def numjac(u,x,h=1e-6):
    J=np.zeros((3,3))
    for j in range(3):
        e=np.zeros(3);e[j]=h
        J[:,j]=(u(np.nan,x+e)-u(np.nan,x-e))/(2*h)
    return J
for name,mk in (('ss',lambda a,b:V.simple_shear_2d(a,b,0.7)),('cell',lambda a,b:V.cell_2d(a,b,1.3,2.0)),('corner',lambda a,b:V.corner_2d(a,b,2.0))):
    for a,b in (('X','Z'),('Y','X')):
        u,L=mk(a,b)
        w=0;tr=0
        for _ in range(50):
            x=rng.uniform(-0.9,0.9,3)
            J=numjac(u,x);Lx=L(np.nan,x)
            w=max(w,np.abs(J-Lx).max());tr=max(tr,abs(np.trace(Lx)))
        print(name,a,b,'max|J-L|',w,'max|tr|',tr)
# pathlines
res=collections.Counter()
u,L=V.cell_2d('X','Z',1.0)
for i in range(60):
    x=np.array([rng.uniform(-0.95,0.95),0,rng.uniform(-0.95,0.95)])
    try:
        with warnings.catch_warnings():
            warnings.simplefilter('ignore')
            ts,pos=P.get_pathline(x,u,L,np.array([-1,0,-1.]),np.array([1,0,1.]),max_strain=rng.choice([0.5,2,7]))
        ok=np.allclose(pos(0),x) and ts[-1]==0 and np.all(np.diff(ts)>0)
        res['ok' if ok else 'bad']+=1
    except Exception as e:
        res[type(e).__name__+':'+str(e)[:50]]+=1
print('cell',res)
res=collections.Counter()
u,L=V.corner_2d('X','Z',1.0)
for i in range(40):
    x=np.array([rng.uniform(0.05,4.9),0,rng.uniform(-1.9,-0.05)])
    try:
        with warnings.catch_warnings():
            warnings.simplefilter('ignore')
            ts,pos=P.get_pathline(x,u,L,np.array([0,0,-2.]),np.array([5,0,0.]),max_strain=rng.choice([0.5,2,7]))
        ok=np.allclose(pos(0),x) and ts[-1]==0 and np.all(np.diff(ts)>0)
        res['ok' if ok else 'bad']+=1
    except Exception as e:
        res[type(e).__name__+':'+str(e)[:50]]+=1
print('corner',res)
res=collections.Counter()
u,L=V.simple_shear_2d('X','Z',1.0)
for i in range(40):
    x=rng.uniform(-0.9,0.9,3)
    try:
        with warnings.catch_warnings():
            warnings.simplefilter('ignore')
            ts,pos=P.get_pathline(x,u,L,np.array([-1,-1,-1.]),np.array([1,1,1.]),max_strain=rng.choice([0.5,2,7]))
        ok=np.allclose(pos(0),x) and ts[-1]==0 and np.all(np.diff(ts)>0)
        res['ok' if ok else 'bad']+=1
    except Exception as e:
        res[type(e).__name__+':'+str(e)[:50]]+=1
print('ss',res)
