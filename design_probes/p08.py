import numpy as np, pydrex, sys, warnings
from pydrex import minerals as mn
from pydrex.core import *
from scipy.spatial.transform import Rotation
from scipy.integrate import solve_ivp
import logging
from pydrex import logger; logger.CONSOLE_LOGGER.setLevel(logging.CRITICAL); sys.excepthook=sys.__excepthook__
rng=np.random.default_rng(5)
def mk(ph,fb,n,seed): return pydrex.Mineral(ph,fb,DeformationRegime.matrix_dislocation,n_grains=n,seed=seed)
def drive(m,p,L,N,T,F0,pos=lambda t:np.zeros(3)):
    F=F0.copy(); ts=np.linspace(0,T,N+1)
    for a,b in zip(ts[:-1],ts[1:]): F=m.update_orientations(p,F,L,(a,b,pos))
    return F
L0=rng.normal(size=(3,3)); Lf=lambda t,x:L0*(1+0.5*np.sin(3*t))+np.outer(x,x)*0.3
pos=lambda t: np.array([np.cos(t),np.sin(t),0.2*t])
F0=np.eye(3)+0.3*rng.normal(size=(3,3))
warnings.simplefilter('ignore')
for phi in (0.7,0.25):
    pm=DefaultParams().as_dict(); pm['phase_assemblage']=(MineralPhase.olivine,MineralPhase.enstatite); pm['phase_fractions']=(phi,1-phi)
    ps=DefaultParams().as_dict(); ps['gbm_mobility']=125*phi
    pperm=dict(pm); pperm['phase_assemblage']=(MineralPhase.enstatite,MineralPhase.olivine); pperm['phase_fractions']=(1-phi,phi)
    a=mk(MineralPhase.olivine,MineralFabric.olivine_B,40,1); b=mk(MineralPhase.olivine,MineralFabric.olivine_B,40,1); c=mk(MineralPhase.olivine,MineralFabric.olivine_B,40,1)
    Fa=drive(a,pm,Lf,5,1.0,F0,pos); Fb=drive(b,ps,Lf,5,1.0,F0,pos); Fc=drive(c,pperm,Lf,5,1.0,F0,pos)
    print(phi,'multi vs single: dA',max(np.abs(x-y).max() for x,y in zip(a.orientations,b.orientations)),'df',max(np.abs(x-y).max() for x,y in zip(a.fractions,b.fractions)),'dF',np.abs(Fa-Fb).max(),'| perm bitident',all(np.array_equal(x,y) for x,y in zip(a.orientations,c.orientations)) and all(np.array_equal(x,y) for x,y in zip(a.fractions,c.fractions)))
# update_all and F reference
ol=mk(MineralPhase.olivine,MineralFabric.olivine_A,30,2); en=mk(MineralPhase.enstatite,MineralFabric.enstatite_AB,30,3)
ol2=mk(MineralPhase.olivine,MineralFabric.olivine_A,30,2); en2=mk(MineralPhase.enstatite,MineralFabric.enstatite_AB,30,3)
F=F0.copy();G=F0.copy(); ts=np.linspace(0,1,6)
for a_,b_ in zip(ts[:-1],ts[1:]):
    F=mn.update_all([ol,en],pm,F,Lf,(a_,b_,pos)); G=mn.update_all([en2,ol2],pm,G,Lf,(a_,b_,pos))
ref=solve_ivp(lambda t,y:(Lf(t,pos(t))@y.reshape(3,3)).ravel(),(0,1),F0.ravel(),method='DOP853',rtol=1e-12,atol=1e-14).y[:,-1].reshape(3,3)
print('update_all F rel err',np.abs(F-ref).max()/np.abs(ref).max(),np.abs(G-ref).max()/np.abs(ref).max(),'order indep bit-ident ol',all(np.array_equal(x,y) for x,y in zip(ol.orientations,ol2.orientations)),'en',all(np.array_equal(x,y) for x,y in zip(en.orientations,en2.orientations)),'det',np.linalg.det(F)/np.linalg.det(F0))
