import numpy as np, pydrex, time
from pydrex.core import *
from scipy.linalg import expm
from scipy.spatial.transform import Rotation
import logging; logging.getLogger('pydrex').setLevel(logging.ERROR)
from pydrex import logger; logger.CONSOLE_LOGGER.setLevel(logging.ERROR)
def run(L,k=1.0,n=30,N=4,T=1.0,seed=1,phase=MineralPhase.olivine,fabric=MineralFabric.olivine_A,regime=DeformationRegime.matrix_dislocation,chi=0.3,M=125,F0=None,Lfun=None):
    m=pydrex.Mineral(phase,fabric,regime,n_grains=n,seed=seed)
    p=DefaultParams().as_dict(); p['gbs_threshold']=chi;p['gbm_mobility']=M
    p['phase_assemblage']=(phase,);p['phase_fractions']=(1.0,)
    F=np.eye(3) if F0 is None else F0.copy()
    ts=np.linspace(0,T/k,N+1)
    fn=(lambda t,x:k*L) if Lfun is None else (lambda t,x:k*Lfun(t*k,x))
    for a,b in zip(ts[:-1],ts[1:]):
        F=m.update_orientations(p,F,fn,(a,b,lambda t:np.zeros(3)))
    return m,F
rng=np.random.default_rng(0)
for trial in range(6):
    L=rng.normal(size=(3,3)); 
    m1,F1=run(L)
    for k in (1e-16,1e-9,1e-4,7.3,1e3):
        m2,F2=run(L,k=k)
        dA=max(np.abs(a-b).max() for a,b in zip(m1.orientations,m2.orientations)); df=max(np.abs(a-b).max() for a,b in zip(m1.fractions,m2.fractions))
        print(trial,k,'dA',dA,'df',df,'dF',np.abs(F1-F2).max(), 'F vs expm', np.abs(F1-expm(L)).max()/np.abs(expm(L)).max())
