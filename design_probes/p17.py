import numpy as np, pydrex, tempfile, os, warnings
from pydrex import Mineral, MineralPhase, MineralFabric, DeformationRegime
import logging
from pydrex import logger; logger.CONSOLE_LOGGER.setLevel(logging.CRITICAL)
d=tempfile.mkdtemp()
rng=np.random.default_rng(0)
def mk(n,k,ph=MineralPhase.enstatite,fb=MineralFabric.enstatite_AB,rg=DeformationRegime.frictional_yielding):
    m=Mineral(ph,fb,rg,n_grains=n,seed=1)
    for _ in range(k):
        m.fractions.append(rng.random(n)); m.orientations.append(rng.normal(size=(n,3,3)))
    return m
m=mk(7,3); f=os.path.join(d,'a.npz')
m.save(f); m2=Mineral.from_file(f); print('from_file eq',m==m2, type(m2.phase), m2.n_grains)
m3=Mineral(n_grains=50,seed=2); m3.load(f); print('load: n_grains',m3.n_grains,'phase',m3.phase,type(m3.phase),'eq',m3==m, 'snap',len(m3.fractions))
# postfixes
f2=os.path.join(d,'b.npz'); ms={}
for i,pf in enumerate(['x','y1','zz']):
    ms[pf]=mk(4+i,i+1,MineralPhase.olivine,list(MineralFabric)[i],DeformationRegime.matrix_dislocation); ms[pf].save(f2,postfix=pf)
for pf in ['zz','x','y1']:
    a=Mineral.from_file(f2,postfix=pf); b=Mineral(n_grains=ms[pf].n_grains); b.load(f2,postfix=pf)
    print(pf,a==ms[pf], all(np.array_equal(p,q) for p,q in zip(b.orientations,ms[pf].orientations)), b.fabric==ms[pf].fabric)
# non-npz filename
for name in ('c.dat','c'):
    g=os.path.join(d,name)
    try: m.save(g); print('save',name,'accepted; files:',sorted(os.listdir(d)))
    except Exception as e: print('save',name,type(e).__name__,e)
    try: m.save(g,postfix='p'); print('save pf',name,'accepted; files:',sorted(os.listdir(d)))
    except Exception as e: print('save pf',name,type(e).__name__,e)
    try: Mineral.from_file(g)
    except Exception as e: print('from_file',name,type(e).__name__)
# corrupt
mc=mk(5,2); mc.fractions.pop()
try: mc.save(os.path.join(d,'e.npz')); print('corrupt1 accepted')
except Exception as e: print('corrupt1',type(e).__name__, os.path.exists(os.path.join(d,'e.npz')))
mc=mk(5,2); mc.n_grains=6
try: mc.save(os.path.join(d,'e.npz')); print('corrupt2 accepted')
except Exception as e: print('corrupt2',type(e).__name__, os.path.exists(os.path.join(d,'e.npz')))
mc=mk(5,2); mc.fractions[2]=np.ones(4)
try: mc.save(os.path.join(d,'e.npz')); print('corrupt3 accepted')
except Exception as e: print('corrupt3',type(e).__name__, os.path.exists(os.path.join(d,'e.npz')))
mc=mk(5,2); mc.orientations[1]=np.ones((5,3,2))
try: mc.save(os.path.join(d,'e.npz'),postfix='q'); print('corrupt4 accepted')
except Exception as e: print('corrupt4',type(e).__name__, os.path.exists(os.path.join(d,'e.npz')))
